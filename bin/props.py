# property → engine runs. Each run: package (first = overlay target), harness dir, harness regexp, native replay files.
OPHOST = dict(pkg="./x/ophost/keeper", overlay="harness/ophost", pkgname="keeper",
              native=["rt.go.tmpl", "ophost_keeper.go.tmpl"])

def oph(rx, **kw):
    d = dict(OPHOST, harness=rx)
    d.update(kw)
    return d

OPCHILD = dict(pkg="./x/opchild/keeper", overlay="harness/opchild", pkgname="keeper",
               native=["rt.go.tmpl", "opchild_keeper.go.tmpl"])

def opc(rx, **kw):
    d = dict(OPCHILD, harness=rx)
    d.update(kw)
    return d

COMMON_ASSUME = [
    "external calls are the models/stubs listed under coverage.stubs (DESIGN.md §5); each is part of the claim",
    "message atomicity: a handler runs on a cache of the state, discarded on error or panic (harness runMsg)",
    "token amounts range over |x| < 2^128",
    "address strings: a valid string decodes to bytes whose rendering is that string, or is a non-canonical spelling of it (upper-case bech32) — both are explored; strings.ToLower/TrimSpace are uninterpreted functions with their algebraic laws",
]

PROPS = {
    "C06": dict(runs=[opc("^Harness_C06_")],
                bounds=["one delivery (any sequence, any sender) from an arbitrary symbolic pre-state — covers duplicates, replays, gaps, reordering and racing executors by induction", "at most 2 configured executors", "no hook payload (C07 covers hooks)", "sequence counters below 2^62"],
                outside=["counter wrap-around at 2^64"], assumptions=COMMON_ASSUME),
    "C07": dict(runs=[opc("^Harness_C07_")],
                bounds=["hook transactions of at most 1 (quick) / 2 (thorough) messages", "fault injection (error / panic) at MintCoins, SendCoinsFromModuleToAccount, tx decoder, ante decorators (error/panic/out-of-gas), each routed hook message (error/panic/out-of-gas, arbitrary state change)", "one configured executor", "outer gas meter infinite (the property presupposes a sufficient limit)"],
                outside=["failures of the reclaim/burn/account-creation calls beyond the bank contract (insufficient funds only)", "outer gas exhaustion, store gas"], assumptions=COMMON_ASSUME + ["ante decorators touch only the hook signer's account sequence", "no vesting/locked coins"]),
    "C09": dict(runs=[opc("^Harness_C09_")],
                bounds=["one message from an arbitrary pre-state; frame over every L2 message except stub-routed ExecuteMessages and the oracle update", "one coin per message", "sequence counters below 2^62"],
                outside=["effects of arbitrary routed messages inside ExecuteMessages (bank module)"], assumptions=COMMON_ASSUME + ["module accounts do not sign messages"]),
    "C10": dict(runs=[oph("^Harness_C10_")],
                bounds=["one message from an arbitrary symbolic pre-state (inductive step); frame/freshness harnesses: every one of the 12 L1 messages", "amounts < 2^128", "strings opaque (any length)", "fewer than 2^62 bridge ids handed out (counter does not wrap)"],
                outside=["amounts >= 2^128"], assumptions=COMMON_ASSUME),
    "C01": dict(runs=[oph("^Harness_C01_")],
                bounds=["one arbitrary L1 message (12 kinds, all fields symbolic) from an arbitrary symbolic pre-state", "iterated stores (OutputProposals, BatchInfos): 1 entry quick / 2 thorough in the pre-state", "proof depth 0..1", "registration fee: at most one coin"],
                outside=["pre-states with more stored outputs/batch infos than the slot bound", "third-party bank sends (bank module)"], assumptions=COMMON_ASSUME + ["module-derived escrow addresses are never message signers", "address derivation is injective (distinct bridge ids give distinct escrows)"]),
    "C02": dict(runs=[oph("^Harness_C02_|^Harness_C03_FinalizeStep")],
                bounds=["proof depth 0..2 quick / 0..4 thorough", "double-finalize composition: depth 0..1 each"], outside=["deeper proofs"], assumptions=COMMON_ASSUME),
    "C03": dict(runs=[oph("^Harness_C03_")],
                bounds=["proof depth 0..2 quick / 0..4 thorough", "non-standard lengths {0,2} for version, {31,33} for roots/hash/proof item"], outside=["deeper proofs", "collision resistance of sha3 (hash is an uninterpreted function)"], assumptions=COMMON_ASSUME),
    "C04": dict(runs=[oph("^Harness_C04_"), opc("^Harness_C04_")],
                bounds=["honest trees of 1..3 (quick) / 1..6 (thorough) leaves, every leaf position, unpaired nodes promoted", "all amounts < 2^128, opaque address/denom strings", "decomposed through the predicate 'claimable' (positive amount that fits 64 bits, non-empty sender): L2 records only claimable withdrawals/refunds; L1 accepts only refundable deposits; L1 finalizes every claimable withdrawal of an honest, final output with a funded escrow"],
                outside=["trees above the bound", "the off-chain executor that builds the tree", "wide unsigned comparisons are an uninterpreted total order (consistency of the order is what the code relies on)"],
                assumptions=COMMON_ASSUME + ["sha3 uninterpreted"]),
    "C05": dict(runs=[oph("^Harness_C05_|^Harness_C11_ProposeStep|^Harness_C11_DeleteStep|^Harness_C03_FinalizeStep")],
                bounds=["every int64 duration, every block/proposal time in the protobuf Timestamp range", "frame harnesses: iterated stores 1 entry quick / 2 thorough"], outside=["times outside years 1..9999"], assumptions=COMMON_ASSUME + ["block time is non-decreasing"]),
    "C11": dict(runs=[oph("^Harness_C11_")],
                bounds=["closed-world OutputProposals store: at most 2 (quick) / 3 (thorough) outputs in the pre-state, over all bridges", "delete loop unwinding 8"],
                outside=["logs longer than the slot bound (the step argument is per operation)"], assumptions=COMMON_ASSUME + ["block time is non-decreasing and not before stored proposal times"]),
    "C12": dict(runs=[oph("^Harness_C12_L1_"), opc("^Harness_C12_L2_")],
                bounds=["every one of the 8 permissioned L1 messages and the 8 permissioned L2 messages, all fields symbolic, arbitrary pre-state", "ExecuteMessages: 1..2 inner (stub) messages with arbitrary signer sets of size 0..2", "at most 2 bridge executors"],
                outside=["the oracle-update message's executor check is asserted in C15"], assumptions=COMMON_ASSUME + ["GetMsgV1Signers and the message router are deterministic stubs (arbitrary per message)"]),
    "C13": dict(runs=[opc("^Harness_C13_")],
                bounds=["closed-world Validators / ValidatorsByConsAddr / LastValidatorPowers: at most 2 (quick) / 3 (thorough) entries in the pre-state", "one EndBlock (or one add/remove/param message) from an arbitrary mid-block state satisfying the index invariant"],
                outside=["more validators than the slot bound", "CometBFT's rule against emptying the validator set (not named by the property)"],
                assumptions=COMMON_ASSUME + ["consensus address is an injective function of the public key (idealised hash)"]),
    "C14": dict(runs=[dict(pkg="./x/opchild,./x/opchild/keeper", overlays=[("./x/opchild", "harness/opchild_abci"), ("./x/opchild/keeper", "harness/opchild")],
                           harness="^Harness_C14_", pkgname="opchild", native=["rt.go.tmpl", "opchild_keeper.go.tmpl"], native_pkg="./x/opchild/keeper", native_pkgname="keeper",
                           runner="keeper.VerifRtRun", runner_import='"github.com/initia-labs/OPinit/x/opchild/keeper"')],
                bounds=["validator stores: at most 2 (quick) / 3 (thorough) entries in the pre-state", "one plan, at an arbitrary height relative to the block height; plan operator and key each new or already stored; executor list of 0..2"],
                outside=["several plans at one height (the plan map is keyed by height)"], assumptions=COMMON_ASSUME + ["consensus address is an injective function of the public key"]),
    "C19": dict(runs=[dict(pkg="./x/ophost/types/hook", overlay="harness/hook", harness="^Harness_C19_", pkgname="hook", native=["rt.go.tmpl", "hook_native.go.tmpl"]),
                      oph("^Harness_C19_")],
                bounds=["channel/permission tables of 2 (quick) / 3 (thorough) channels with arbitrary state", "metadata listing 0..2 channels", "the three hook entry points; the three ophost handlers that call the hook"],
                outside=["which byte strings encoding/json accepts as the documented structure (hasPermChannels is stubbed as a deterministic function of the metadata bytes: reflection-based library code is not encodable)"],
                assumptions=COMMON_ASSUME + ["the permission keeper's SetAdmin may fail arbitrarily; IsTaken/HasAdminPermission follow the table"]),
    "C20": dict(runs=[
                    dict(pkg="./x/opchild/ante,./x/opchild/keeper", overlays=[("./x/opchild/ante", "harness/ante"), ("./x/opchild/keeper", "harness/opchild")],
                         harness="^Harness_C20_", pkgname="ante", native=["rt.go.tmpl", "ante_native.go.tmpl", "ante_extra.go.tmpl"],
                         extra_native=[("./x/opchild/keeper", "keeper", ["rt.go.tmpl", "opchild_keeper.go.tmpl"])]),
                    dict(pkg="./x/opchild/lanes", overlay="harness/lanes", harness="^Harness_C20_", pkgname="lanes", native=["rt.go.tmpl", "ante_native.go.tmpl", "lanes_extra.go.tmpl"])],
                bounds=["fee floor: universe of 2 (quick) / 3 (thorough) ordered denoms, node/chain/fee vectors any sub-set, prices and amounts < 2^128, gas full 64 bit", "system lane: 0..3 messages, exec nesting depth 2, inner lists 0..2", "free lane: whitelist 0..2 valid addresses, granter optional", "redundant relay: 0..2 messages, one configured executor"],
                outside=["more denoms / messages than the bounds"], assumptions=COMMON_ASSUME + ["price vectors are valid DecCoins (sorted, unique, positive) as config parsing and Params.Validate guarantee", "whitelist entries are valid addresses (Params.Validate)"]),
    "C16": dict(runs=[oph("^Harness_C16_"), opc("^Harness_C16_")],
                bounds=["states constructed through the keepers' own setters on an empty chain: L1: 0..1 bridges, each with 1..2 batch infos, 0..m token pairs, outputs, claims (m = 1 quick / 2 thorough), and exactly two bridges with consecutive ids and at most one entry per collection (TwoBridges); L2: 0..2 validators with powers, both sequences, bridge info present/absent, 0..m denom pairs", "all contents symbolic"],
                outside=["larger states", "JSON canonical form / byte-level encoding of the genesis file"], assumptions=COMMON_ASSUME),
    "C08": dict(runs=[dict(pkg="./x/opchild/keeper,./x/ophost/keeper",
                           overlays=[("./x/opchild/keeper", "harness/opchild"), ("./x/opchild/keeper", "harness/opchild_c08"), ("./x/ophost/keeper", "harness/ophost")],
                           harness="^Harness_C08_", pkgname="keeper", native=["rt.go.tmpl", "opchild_keeper.go.tmpl", "opchild_joint.go.tmpl"],
                           extra_native=[("./x/ophost/keeper", "keeper", ["rt.go.tmpl", "ophost_keeper.go.tmpl"])])],
                level_text="Bounded symbolic model checking of both modules together: one full relay round trip (L1 deposit -> L2 finalization; L2 withdrawal -> honest output -> L1 claim) is executed with the real handlers of x/ophost and x/opchild over two independent symbolic chain states, the executor being harness code that copies the emitted event fields; z3 must show the solvency invariant J (escrow = L2 supply + in-flight value, denom mapping = derivation) again after the round trip for all values within the bounds.",
                bounds=["one deposit round trip and one withdrawal round trip from arbitrary joint states satisfying J (inductive steps)", "one bridged denom observed; single-leaf withdrawal tree (C04 covers larger trees); no hook payload (C07/C09 cover hooks)", "one configured executor"],
                outside=["relay schedules other than in-order delivery of the next deposit (C06 shows other deliveries are no-ops or rejected)", "the drain/liveness half beyond one round trip", "dishonest outputs (C03/C05)"],
                assumptions=COMMON_ASSUME + ["the executor relays the emitted event fields faithfully", "J and the denom-mapping invariant hold in the pre-state (re-established by the two harnesses)", "'l2/'+64 hex digits is a valid denom"]),
    "C15": dict(runs=[opc("^Harness_C15_")],
                level_text="Bounded symbolic model checking of the OPinit-owned part of the oracle path: the message handler, L2OracleHandler.UpdateOracle, ValidateVoteExtensions, GetOracleVotes, WritePrices and the host-validator store are executed from go/ssa; connect's codecs, its vote aggregator (per-pair two-thirds median over distinct validators) and ed25519 are stubs (arbitrary deterministic functions), so the claim is about what OPinit's own code guarantees given any behaviour of those.",
                bounds=["handler step: 0..1 votes, 0..1 recorded L1 validators, 0..1 registered currency pairs, aggregated map with/without the timestamp pair plus 0..1 other pairs (nil or non-nil price)", "signature validation on its own: exactly 2 (quick) / 3 (thorough) votes over 0..2 recorded validators, votes may repeat a validator", "host validator set replacement: 0..2 stored, 0..2 new validators"],
                outside=["connect's aggregator/median, compression and protobuf codecs, ed25519 (stubs)", "recorded stake of 2^63 or more (Int64 conversion panics: the message fails, nothing is written)", "the per-pair two-thirds power threshold over distinct validators is enforced by connect's aggregator, not by OPinit code: assumed, not checked"],
                assumptions=COMMON_ASSUME + ["length-delimited protobuf encoding of CanonicalVoteExtension is an injective function of its four fields", "signature verification is an uninterpreted predicate sigOK(key, message, signature)", "recorded validator-set heights are non-negative"]),
    "C18": dict(runs=[oph("^Harness_C18_L1_"), opc("^Harness_C18_L2_"),
                      dict(pkg="./x/opchild,./x/opchild/keeper", overlays=[("./x/opchild", "harness/opchild_abci"), ("./x/opchild/keeper", "harness/opchild")],
                           harness="^Harness_C18_L2_(End|Begin)Blocker$", pkgname="opchild", native=["rt.go.tmpl", "opchild_keeper.go.tmpl"], native_pkg="./x/opchild/keeper", native_pkgname="keeper",
                           runner="keeper.VerifRtRun", runner_import='"github.com/initia-labs/OPinit/x/opchild/keeper"')],
                level_text="Bounded symbolic model checking of the real Go code by self-composition: every message handler, block hook and genesis function is executed twice from the same symbolic pre-state with independent copies of the runtime-oracle symbols (iteration order of every Go map range, time.Now); z3 must show every observable (panic, error, response, ordered events, ordered validator updates, every store cell and bank ledger) equal for all inputs and all pairs of oracle choices within the bounds.",
                bounds=["one step (any of the 12 L1 / 8 L2 messages, EndBlocker with or without a plan, BeginBlocker, Export/InitGenesis) from an arbitrary symbolic pre-state, executed twice", "Go maps of up to 3 entries: every pair of iteration orders", "validator stores 2 (quick) / 3 (thorough) entries; L1 iterated stores 1 / 2 entries; L1 genesis: 0..1 bridges (quick) / 0..2 bridges (thorough) with one entry per per-bridge collection (two batch infos); L2 genesis shapes as in C16", "deposit with a hook transaction of two stub-routed messages (HookStep): every reading of the wall clock (time.Now/time.Since) is an independent oracle in each execution"],
                outside=["byte-level store encoding (codecs are assumed deterministic)", "goroutines / select (none on the explored paths; meeting one is reported INCONCLUSIVE)", "the oracle-update message (decoded by connect's codecs; C15 covers its gating)", "dependence on prior process history other than through the listed oracles"],
                assumptions=COMMON_ASSUME + ["other modules reached through keepers/routers/hooks are deterministic: the same call sequence gets the same answers in both executions", "the modelled wall clock advances across calls into other components (stub message handlers) only: with no such call since the last time.Now, time.Since is below 1 ms (the replay realises elapsed time by sleeping in the stub handler, at most 1.5 s)"]),
    "C17": dict(runs=[dict(pkg="./x/ophost/types", overlay="harness/C17", pkgname="types", harness="^Harness_C17_", native=["rt.go.tmpl", "types_native.go.tmpl"])],
                bounds=["proof depth 0..2 (quick) / 0..4 (thorough)", "three memory layouts of the proof list", "all 64-bit field values, opaque strings of any length"],
                outside=["proofs deeper than 4"], assumptions=["sha3 is an uninterpreted function: equality of digests is decided by equality of preimage bytes", "address.Module is an uninterpreted injective function"]),
}
