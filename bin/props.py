# property → engine runs. Each run: package (first = overlay target), harness dir, harness regexp, native replay files.
OPHOST = dict(pkg="./x/ophost/keeper", overlay="harness/ophost", pkgname="keeper",
              native=["rt.go.tmpl", "ophost_keeper.go.tmpl"])

def oph(rx, **kw):
    d = dict(OPHOST, harness=rx)
    d.update(kw)
    return d

COMMON_ASSUME = [
    "external calls are the models/stubs listed under coverage.stubs (DESIGN.md §5); each is part of the claim",
    "message atomicity: a handler runs on a cache of the state, discarded on error or panic (harness runMsg)",
    "token amounts range over |x| < 2^128",
]

PROPS = {
    "C10": dict(runs=[oph("^Harness_C10_")],
                bounds=["one message from an arbitrary symbolic pre-state (inductive step)", "amounts < 2^128", "strings opaque (any length)"],
                outside=["amounts >= 2^128"], assumptions=COMMON_ASSUME),
    "C17": dict(runs=[dict(pkg="./x/ophost/types", overlay="harness/C17", pkgname="types", harness="^Harness_C17_", native=["rt.go.tmpl", "types_native.go.tmpl"])],
                bounds=["proof depth 0..2 (quick) / 0..4 (thorough)", "three memory layouts of the proof list", "all 64-bit field values, opaque strings of any length"],
                outside=["proofs deeper than 4"], assumptions=["sha3 is an uninterpreted function: equality of digests is decided by equality of preimage bytes", "address.Module is an uninterpreted injective function"]),
}
