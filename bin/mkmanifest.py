#!/usr/bin/env python3
"""Regenerates MANIFEST.json from bin/props.py (claimed checks) — everything not in PROPS is listed not_applicable."""
import json, os, sys
V = os.path.dirname(os.path.dirname(os.path.abspath(__file__)))
sys.path.insert(0, os.path.join(V, "bin"))
from props import PROPS
ALL = ["C%02d" % i for i in range(1, 21)]
NA_REASON = json.load(open(os.path.join(V, "bin", "na_reasons.json")))
checks = []
for pid in ALL:
    if pid not in PROPS:
        continue
    p = PROPS[pid]
    checks.append(dict(
        property_id=pid,
        quick_cmd=f"bin/check {pid} quick",
        thorough_cmd=f"bin/check {pid} thorough",
        evidence_file=f"/verif/evidence/{pid}.json",
        replay_cmd_template=f"bin/check {pid} --replay {{path}}",
        engine="gosmt",
        level_claimed=dict(category="model_checking",
                           text=p.get("level_text", "Bounded symbolic model checking of the real Go code: the handlers are executed from go/ssa with symbolic inputs and a symbolic pre-state, every path's assertions are discharged by z3; holds for every value inside the stated bounds, says nothing outside them."),
                           design_ref=p.get("design_ref", "DESIGN.md §10 " + pid)),
        level_note="; ".join(p.get("assumptions", [])),
        technique="solver-based checking: SSA symbolic execution + SMT (z3), native replay of counterexamples",
    ))
m = dict(
    version=1,
    setup_cmd="cd /verif/engine && GOFLAGS=-mod=mod GOPROXY=off GOSUMDB=off GOTOOLCHAIN=local go build -o /verif/bin/gosmt .",
    hooks=dict(guard="verif", enable="harness files are go/packages overlays built with -tags verif (replays: -tags 'verif verifnative' via go test -overlay); no source file of /repo is changed",
               baseline_off_cmd="cd /repo && go test -vet=off -count=1 ./... && (cd api && go build ./...)",
               source_commits=[], add_only=True),
    engines=[dict(name="gosmt", path="/verif/engine", serves_properties=[c["property_id"] for c in checks],
                  kind_free_text="path-forking symbolic executor over go/ssa of the repository's own packages; SMT-LIB2 to a persistent z3 process; environment (collections, bank, auth, context) as models; native replay through go test -overlay")],
    checks=checks,
    notes="Genuine defects found are in known_findings.json (fixed entries suppress nothing). See DESIGN.md.",
    not_applicable=[dict(property_id=p, reason=NA_REASON.get(p, "check not built yet in this session (no claim made)")) for p in ALL if p not in PROPS],
)
json.dump(m, open(os.path.join(V, "MANIFEST.json"), "w"), indent=1)
print("checks:", [c["property_id"] for c in checks], "n/a:", [x["property_id"] for x in m["not_applicable"]])
