//go:build verif

package keeper

import authtypes "github.com/cosmos/cosmos-sdk/x/auth/types"

// where the creation fee goes (the community pool's module account)
func communityPoolAddr() []byte { return authtypes.NewModuleAddress("distribution") }
