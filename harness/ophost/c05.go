//go:build verif

package keeper

import (
	"time"

	"cosmossdk.io/math"
	sdk "github.com/cosmos/cosmos-sdk/types"

	"github.com/initia-labs/OPinit/x/ophost/types"
)

// nanoseconds since the epoch as an unbounded integer
func ns(t time.Time) math.Int {
	return math.NewInt(t.Unix()).MulRaw(1000000000).AddRaw(int64(t.Nanosecond()))
}

// reference finality predicate of the property: an output may be used only when the bridge's finalization
// period has elapsed since its proposal, up to the one-second granularity of the comparison.
func refFinal(now, proposed time.Time, period time.Duration) bool {
	return ns(now).AddRaw(1000000000).GT(ns(proposed).Add(math.NewInt(int64(period))))
}

// strict version: the period has fully elapsed (no granularity slack) ⇒ the output is final
func refFinalStrict(now, proposed time.Time, period time.Duration) bool {
	return ns(now).GTE(ns(proposed).Add(math.NewInt(int64(period))).AddRaw(1000000000))
}

// C05 (a) kernel on the keeper's own predicate, every (now, proposal time, period)
func Harness_C05_TimeKernel() {
	k, _, ctx := setup()
	b := verifSymU64("bridge")
	cfg, err := k.GetBridgeConfig(ctx, b)
	verifAssume(err == nil)
	verifAssume(cfg.FinalizationPeriod > 0) // what CreateBridge guarantees, see Harness_C05_CreatePeriod
	out := types.Output{OutputRoot: verifSymBytes("root", 32), L1BlockNumber: verifSymU64("l1h"), L1BlockTime: verifSymTime("proposed"), L2BlockNumber: verifSymU64("l2h")}
	idx := verifSymU64("idx")
	if k.SetOutputProposal(ctx, b, idx, out) != nil {
		return
	}
	fin, ferr := k.IsFinalized(ctx, b, idx)
	verifAssume(ferr == nil)
	if fin {
		verifReach("final")
		verifAssert("IsFinalized only after the period (one-second granularity)", refFinal(ctx.BlockTime(), out.L1BlockTime, cfg.FinalizationPeriod))
	} else {
		verifReach("not final")
		verifAssert("an output whose window has fully elapsed is final", !refFinalStrict(ctx.BlockTime(), out.L1BlockTime, cfg.FinalizationPeriod))
	}
	// irreversibility: finality is monotone in block time
	later := verifSymTime("later")
	verifAssume(!later.Before(ctx.BlockTime()))
	fin2, _ := k.IsFinalized(ctx.WithBlockTime(later), b, idx)
	if fin {
		verifAssert("finality is irreversible as block time advances", fin2)
	}
}

// C05 (b): every bridge the chain accepts has a strictly positive period, and no message rewrites it.
func Harness_C05_CreatePeriod() {
	boundStores(1, 1)
	verifConfig("maxlen:RegistrationFee", 1)
	k, ms, ctx := setup()
	req := &types.MsgCreateBridge{Creator: verifSymStr("req.creator"), Config: symConfig("req.config")}
	var id uint64
	err, pan := runMsg(ctx, func(c sdk.Context) error {
		r, e := ms.CreateBridge(c, req)
		if e == nil {
			id = r.BridgeId
		}
		return e
	})
	verifAssert("CreateBridge does not panic", !pan)
	if ok(err, pan) {
		verifReach("bridge created")
		cfg, gerr := k.GetBridgeConfig(ctx, id)
		verifAssert("created bridge is stored", gerr == nil)
		verifAssert("accepted bridges have a strictly positive finalization period", cfg.FinalizationPeriod > 0)
		verifAssert("stored period is the requested one", cfg.FinalizationPeriod == req.Config.FinalizationPeriod)
	}
}

func Harness_C05_PeriodFrame() {
	boundStores(1, 1)
	verifConfig("maxlen:RegistrationFee", 1)
	k, ms, ctx := setup()
	b := verifSymU64("obsBridge")
	cfg, err := k.GetBridgeConfig(ctx, b)
	verifAssume(err == nil)
	assumeBridgeInv(ctx, k, b)
	st := anyStep(ms, ctx)
	_ = st
	cfg2, err2 := k.GetBridgeConfig(ctx, b)
	verifAssert("an existing bridge is never removed", err2 == nil)
	verifAssert("no message changes an existing bridge's finalization period", cfg2.FinalizationPeriod == cfg.FinalizationPeriod)
}

// C05 (c)+(d): an output that is final now is never deleted or altered by any message; deletion succeeds only
// for outputs that are not final; a proposal records the current block time.
func Harness_C05_FinalOutputsFrame() {
	if verifThorough() {
		boundStores(2, 1)
	} else {
		boundStores(1, 1)
	}
	verifConfig("maxlen:RegistrationFee", 1)
	k, ms, ctx := setup()
	b := verifSymU64("obsBridge")
	i := verifSymU64("obsIndex")
	out, err := k.GetOutputProposal(ctx, b, i)
	verifAssume(err == nil)
	cfg, cerr := k.GetBridgeConfig(ctx, b)
	verifAssume(cerr == nil)
	verifAssume(cfg.FinalizationPeriod > 0)
	assumeBridgeInv(ctx, k, b)
	verifAssume(i >= 1 && i < k.nextOut(ctx, b)) // H3: outputs occupy exactly 1..next-1
	wasFinal := refFinalStrict(ctx.BlockTime(), out.L1BlockTime, cfg.FinalizationPeriod)
	// the module's own finality predicate — the one withdrawals are finalized against — in the pre-state
	usable, uerr := k.IsFinalized(ctx, b, i)
	st := anyStep(ms, ctx)
	out2, err2 := k.GetOutputProposal(ctx, b, i)
	if wasFinal {
		verifReach("final output observed")
		verifAssert("a final output is never deleted", err2 == nil)
		verifAssert("a final output is never replaced or altered", sameOutput(out, out2))
	}
	if uerr == nil && usable {
		verifAssert("an output withdrawals can already be finalized against is never deleted", err2 == nil)
	}
	if err2 != nil {
		verifReach("output deleted")
		verifAssert("outputs disappear only through a successful DeleteOutput of that bridge at or below the index",
			st.ok() && st.which == mDeleteOutput && st.bridge == b && st.delIndex <= i)
		verifAssert("a deleted output was not final (one-second granularity)", !wasFinal)
	}
	if err2 == nil && !sameOutput(out, out2) {
		verifAssert("an output is rewritten only by a successful proposal at that index", st.ok() && st.which == mProposeOutput && st.bridge == b && st.propose.OutputIndex == i)
	}
}

// C05 / C11: a successful proposal records the current L1 block height and time (the clock restarts).
func Harness_C11_ProposeStep() {
	k, ms, ctx := setup()
	req := &types.MsgProposeOutput{Proposer: verifSymStr("req.proposer"), BridgeId: verifSymU64("req.bridge"), OutputIndex: verifSymU64("req.outputIndex"), L2BlockNumber: verifSymU64("req.l2block"), OutputRoot: verifSymBytes("req.root", 32)}
	b := req.BridgeId
	cfg, cfgErr := k.GetBridgeConfig(ctx, b)
	next := k.nextOut(ctx, b)
	var prev types.Output
	var prevErr error
	if next > 1 {
		prev, prevErr = k.GetOutputProposal(ctx, b, next-1)
	}
	b2 := verifSymU64("otherBridge")
	verifAssume(b2 != b)
	next2 := k.nextOut(ctx, b2)
	err, pan := runMsg(ctx, func(c sdk.Context) error { _, e := ms.ProposeOutput(c, req); return e })
	verifAssert("ProposeOutput does not panic", !pan)
	if !ok(err, pan) {
		verifAssert("a rejected proposal leaves the counter", k.nextOut(ctx, b) == next)
		return
	}
	verifReach("proposal accepted")
	verifAssert("bridge exists", cfgErr == nil)
	verifAssert("only the current proposer may propose", req.Proposer == cfg.Proposer)
	verifAssert("accepted only at the next index", req.OutputIndex == next)
	verifAssert("counter advances by one", k.nextOut(ctx, b) == next+1)
	verifAssert("other bridge's counter untouched", k.nextOut(ctx, b2) == next2)
	if next > 1 {
		verifAssert("predecessor exists", prevErr == nil)
		verifAssert("L2 block number strictly increases", req.L2BlockNumber > prev.L2BlockNumber)
	}
	got, gerr := k.GetOutputProposal(ctx, b, next)
	verifAssert("proposal stored at the next index", gerr == nil)
	verifAssert("stores the root", string(got.OutputRoot) == string(req.OutputRoot))
	verifAssert("stores the L2 block number", got.L2BlockNumber == req.L2BlockNumber)
	verifAssert("records the current L1 block time", got.L1BlockTime.Equal(ctx.BlockTime()))
	verifAssert("records the current L1 block height", got.L1BlockNumber == uint64(ctx.BlockHeight()))
}

// C05 (e): the last-finalized-output query names the highest final index of THAT bridge (0 when none is final).
// Outputs of other bridges — stored before and after it in key order — never leak into the answer.
func Harness_C05_LastFinalizedQuery() {
	n := 2
	if verifThorough() {
		n = 3
	}
	boundStores(n, 1)
	k, _, ctx := setup()
	b := verifSymU64("bridge")
	cfg, err := k.GetBridgeConfig(ctx, b)
	verifAssume(err == nil && cfg.FinalizationPeriod > 0)
	idx, out, qerr := k.GetLastFinalizedOutput(ctx, b)
	verifAssert("the query does not fail for an existing bridge", qerr == nil)
	if qerr != nil {
		return
	}
	isFinal := func(i uint64) (bool, bool) {
		o, e := k.GetOutputProposal(ctx, b, i)
		if e != nil {
			return false, false
		}
		f, fe := k.IsFinalized(ctx, b, i)
		_ = o
		return fe == nil && f, true
	}
	if idx != 0 {
		verifReach("a final output is named")
		stored, serr := k.GetOutputProposal(ctx, b, idx)
		verifAssert("the named index is an output of this bridge", serr == nil)
		if serr == nil {
			verifAssert("the returned output is the stored one", sameOutput(out, stored))
			f, _ := isFinal(idx)
			verifAssert("the named output is final", f)
		}
	} else {
		verifReach("no final output")
	}
	// no output of this bridge with a higher index is final (arbitrary other index j)
	j := verifSymU64("otherIndex")
	if fj, exists := isFinal(j); exists && j > idx {
		verifAssert("no higher index of this bridge is final", !fj)
	}
	res, rerr := NewQuerier(k).LastFinalizedOutput(ctx, &types.QueryLastFinalizedOutputRequest{BridgeId: b})
	verifAssert("the gRPC query returns the same index", rerr == nil && res.OutputIndex == idx)
}
