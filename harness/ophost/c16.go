//go:build verif

package keeper

import (
	sdk "github.com/cosmos/cosmos-sdk/types"

	"github.com/initia-labs/OPinit/x/ophost/types"
)

// buildState: a reachable-shaped ophost state constructed through the keeper's own setters on an empty chain:
// nb bridges with consecutive ids, each with a valid config, a batch-info history (first entry with an empty
// output, last equal to the config's), 0..m token pairs, a contiguous output log, claim records, counters.
func buildState(ctx sdk.Context, k Keeper) {
	m := 1
	if verifThorough() {
		m = 2
	}
	// at most one bridge here (two entries per collection in the thorough tier); two bridges are TwoBridges' shape
	buildStateShape(ctx, k, 0, 1, m)
}

// buildStateShape: nbLo..nbHi bridges, at most m entries per per-bridge collection
func buildStateShape(ctx sdk.Context, k Keeper, nbLo, nbHi, m int) {
	nb := verifSymLen("shape.bridges", nbLo, nbHi)
	must := func(err error) {
		if err != nil {
			panic(err)
		}
	}
	p := verifSym[types.Params]("st.params")
	verifAssume(p.Validate() == nil)
	must(k.SetParams(ctx, p))
	first := verifSymU64("shape.firstId")
	verifAssume(first >= 1 && first < 1<<62)
	for i := 0; i < nb; i++ {
		id := first + uint64(i)
		cfg := symConfig("st.bridge.config")
		verifAssume(cfg.Validate(k.authKeeper.AddressCodec()) == nil)
		must(k.SetBridgeConfig(ctx, id, cfg))
		// batch-info history
		mb := m
		if nbLo < 2 && mb < 2 {
			mb = 2 // a history of two batch infos even in the quick tier (the later one may record an empty output)
		}
		nbi := verifSymLen("shape.batchInfos", 1, mb)
		for j := 0; j < nbi; j++ {
			bi := cfg.BatchInfo
			out := types.Output{}
			if j < nbi-1 {
				bi = symBatchInfo("st.bridge.oldBatch")
			}
			// a batch-info update records the last finalized output — the empty output while nothing is final yet
			if j > 0 && verifChoice("shape.batchOutputRecorded", 2) == 1 {
				out = types.Output{OutputRoot: verifSymBytes("st.batch.outRoot", 32), L1BlockNumber: verifSymU64("st.batch.l1h"), L1BlockTime: verifSymTime("st.batch.time"), L2BlockNumber: verifSymU64("st.batch.l2h")}
			}
			must(k.SetBatchInfo(ctx, id, bi, out))
		}
		if verifChoice("shape.hasSeq", 2) == 1 {
			sq := verifSymU64("st.bridge.nextL1")
			verifAssume(sq >= 1)
			must(k.SetNextL1Sequence(ctx, id, sq))
		}
		ntp := verifSymLen("shape.tokenPairs", 0, m)
		for j := 0; j < ntp; j++ {
			l1 := verifSymStr("st.pair.l1")
			verifAssume(sdk.ValidateDenom(l1) == nil)
			l2 := types.L2Denom(id, l1)
			verifAssume(sdk.ValidateDenom(l2) == nil)
			must(k.SetTokenPair(ctx, id, l2, l1))
		}
		nout := verifSymLen("shape.outputs", 0, m)
		for j := 0; j < nout; j++ {
			must(k.SetOutputProposal(ctx, id, uint64(j+1), types.Output{OutputRoot: verifSymBytes("st.out.root", 32), L1BlockNumber: verifSymU64("st.out.l1h"), L1BlockTime: verifSymTime("st.out.time"), L2BlockNumber: verifSymU64("st.out.l2h")}))
		}
		if nout > 0 || verifChoice("shape.hasOutCounter", 2) == 1 {
			must(k.SetNextOutputIndex(ctx, id, uint64(nout+1)))
		}
		ncl := verifSymLen("shape.claims", 0, m)
		for j := 0; j < ncl; j++ {
			must(k.RecordProvenWithdrawal(ctx, id, arr32(verifSymBytes("st.claim", 32))))
		}
	}
	must(k.SetNextBridgeId(ctx, first+uint64(nb)))
}

func sameBridge(a, b types.Bridge) bool {
	if a.BridgeId != b.BridgeId || a.NextL1Sequence != b.NextL1Sequence || a.NextOutputIndex != b.NextOutputIndex || !sameConfig(a.BridgeConfig, b.BridgeConfig) {
		return false
	}
	if len(a.TokenPairs) != len(b.TokenPairs) || len(a.ProvenWithdrawals) != len(b.ProvenWithdrawals) || len(a.Proposals) != len(b.Proposals) || len(a.BatchInfos) != len(b.BatchInfos) {
		return false
	}
	for i := range a.TokenPairs {
		if a.TokenPairs[i] != b.TokenPairs[i] {
			return false
		}
	}
	for i := range a.ProvenWithdrawals {
		if string(a.ProvenWithdrawals[i]) != string(b.ProvenWithdrawals[i]) {
			return false
		}
	}
	for i := range a.Proposals {
		if a.Proposals[i].OutputIndex != b.Proposals[i].OutputIndex || !sameOutput(a.Proposals[i].OutputProposal, b.Proposals[i].OutputProposal) {
			return false
		}
	}
	for i := range a.BatchInfos {
		if a.BatchInfos[i].BatchInfo != b.BatchInfos[i].BatchInfo || !sameOutput(a.BatchInfos[i].Output, b.BatchInfos[i].Output) {
			return false
		}
	}
	return true
}

// C16 (L1): export -> validate -> init on a fresh chain -> export is the identity, and point queries agree.
func Harness_C16_L1_RoundTrip() { roundTripL1(false) }

// the same round trip over exactly two bridges with at most one entry per collection each: what is exported
// for one bridge must not leak into, or be overwritten by, what is exported for the other
func Harness_C16_L1_TwoBridges() { roundTripL1(true) }

func roundTripL1(two bool) {
	verifConfig("emptystate", 1)
	verifConfig("nolimit", 1)
	verifConfig("maxlen:RegistrationFee", 1)
	k := verifSym[Keeper]("k")
	ctx := verifSym[sdk.Context]("ctx")
	if two {
		buildStateShape(ctx, k, 2, 2, 1)
	} else {
		buildState(ctx, k)
	}
	gs := k.ExportGenesis(ctx)
	verifAssert("an exported genesis passes the module's own validation", types.ValidateGenesis(gs, k.authKeeper.AddressCodec()) == nil)
	ctx2 := verifFreshChain(ctx)
	pan := false
	func() {
		defer func() {
			if r := recover(); r != nil {
				pan = true
			}
		}()
		k.InitGenesis(ctx2, gs)
	}()
	verifAssert("an exported genesis initialises a fresh chain without panic", !pan)
	if pan {
		return
	}
	verifReach("round trip")
	gs2 := k.ExportGenesis(ctx2)
	verifAssert("next bridge id survives", gs2.NextBridgeId == gs.NextBridgeId)
	verifAssert("the same bridges are exported again", len(gs2.Bridges) == len(gs.Bridges))
	if len(gs2.Bridges) == len(gs.Bridges) {
		for i := range gs.Bridges {
			verifAssert("bridge state survives export/import unchanged", sameBridge(gs.Bridges[i], gs2.Bridges[i]))
		}
	}
	// observational equality on arbitrary keys
	b, i := verifSymU64("obsBridge"), verifSymU64("obsIndex")
	o1, e1 := k.GetOutputProposal(ctx, b, i)
	o2, e2 := k.GetOutputProposal(ctx2, b, i)
	verifAssert("outputs answer identically after the round trip", (e1 == nil) == (e2 == nil) && sameOutput(o1, o2))
	verifAssert("deposit sequences answer identically", k.nextL1(ctx, b) == k.nextL1(ctx2, b))
	verifAssert("output counters answer identically", k.nextOut(ctx, b) == k.nextOut(ctx2, b))
	wh := arr32(verifSymBytes("obsClaim", 32))
	c1, _ := k.HasProvenWithdrawal(ctx, b, wh)
	c2, _ := k.HasProvenWithdrawal(ctx2, b, wh)
	verifAssert("claim records answer identically", c1 == c2)
	l2 := verifSymStr("obsL2Denom")
	p1, h1 := k.tokenPair(ctx, b, l2)
	p2, h2 := k.tokenPair(ctx2, b, l2)
	verifAssert("token pairs answer identically", h1 == h2 && p1 == p2)
}
