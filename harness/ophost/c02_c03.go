//go:build verif

package keeper

import (
	sdk "github.com/cosmos/cosmos-sdk/types"

	"github.com/initia-labs/OPinit/x/ophost/types"
)

func refFold(leaf [32]byte, proofs [][]byte) [32]byte {
	cur := leaf
	for _, p := range proofs {
		cur = refNode(cur, arr32(p))
	}
	return cur
}

func proofDepth() int {
	if verifThorough() {
		return verifSymLen("depth", 0, 4)
	}
	return verifSymLen("depth", 0, 2)
}

// C02 + C03 step: one FinalizeTokenWithdrawal from an arbitrary state.
func Harness_C03_FinalizeStep() {
	k, ms, ctx := setup()
	req := symFinalize(proofDepth())
	b := req.BridgeId
	escrow := types.BridgeAddress(b)
	to, toOK := k.addr(req.To)
	out, outErr := k.GetOutputProposal(ctx, b, req.OutputIndex)
	amtFits := req.Amount.Amount.IsUint64()
	var leaf [32]byte
	claimedPre := false
	if amtFits {
		leaf = refLeaf(b, req.Sequence, req.From, req.To, req.Amount.Denom, req.Amount.Amount.Uint64())
		claimedPre, _ = k.HasProvenWithdrawal(ctx, b, leaf)
	}
	preEsc := k.bal(ctx, escrow, req.Amount.Denom)
	var preTo = preEsc
	if toOK {
		preTo = k.bal(ctx, to, req.Amount.Denom)
	}
	nEv := len(eventsOf(ctx, types.EventTypeFinalizeTokenWithdrawal))
	// copies of the caller's bytes: verification must not modify them
	sr0, lbh0 := arr32(req.StorageRoot), arr32(req.LastBlockHash)
	p0 := make([][32]byte, len(req.WithdrawalProofs))
	for i, p := range req.WithdrawalProofs {
		p0[i] = arr32(p)
	}

	err, pan := runMsg(ctx, func(c sdk.Context) error { _, e := ms.FinalizeTokenWithdrawal(c, req); return e })
	if pan {
		// the only panic: amount does not fit the 64-bit leaf format (see C04)
		verifAssert("finalize panics only for amounts the leaf format cannot carry", !amtFits)
		return
	}
	for i, p := range req.WithdrawalProofs {
		verifAssert("proof bytes are not modified", arr32(p) == p0[i])
	}
	verifAssert("message bytes are not modified", arr32(req.StorageRoot) == sr0 && arr32(req.LastBlockHash) == lbh0)
	if err != nil {
		verifReach("finalize rejected")
		verifAssert("rejected claim pays nothing", k.bal(ctx, escrow, req.Amount.Denom).Equal(preEsc))
		if amtFits {
			claimedPost, _ := k.HasProvenWithdrawal(ctx, b, leaf)
			verifAssert("rejected claim records nothing", claimedPost == claimedPre)
		}
		verifAssert("rejected claim emits nothing", len(eventsOf(ctx, types.EventTypeFinalizeTokenWithdrawal)) == nEv)
		return
	}
	verifReach("finalize accepted")
	// C03 (i): the named index stores an output whose root commits to (version, storage root, block hash)
	verifAssert("output exists at the named index", outErr == nil)
	verifAssert("amount fits the committed 64-bit field", amtFits)
	want := refOutputRoot(req.Version[0], arr32(req.StorageRoot), arr32(req.LastBlockHash))
	verifAssert("stored output root equals the commitment in the message", string(out.OutputRoot) == string(want[:]))
	// C03 (ii): the leaf over exactly the six claimed fields hashes up to the storage root through the proofs
	verifAssert("leaf hashes up to the storage root through the proofs", refFold(leaf, req.WithdrawalProofs) == arr32(req.StorageRoot))
	// C02: not claimed before, claimed after
	verifAssert("a paid withdrawal was not claimed before", !claimedPre)
	claimedPost, _ := k.HasProvenWithdrawal(ctx, b, leaf)
	verifAssert("a paid withdrawal is recorded as claimed", claimedPost)
	res, qerr := NewQuerier(k).Claimed(ctx, &types.QueryClaimedRequest{BridgeId: b, WithdrawalHash: leaf[:]})
	verifAssert("Claimed query answers true for a paid withdrawal", qerr == nil && res.Claimed)
	// C03 (iii): the transfer performed is exactly the committed tuple
	verifAssert("recipient address valid", toOK)
	if toOK && !sameAddr(to, escrow) {
		verifAssert("escrow pays exactly the amount", k.bal(ctx, escrow, req.Amount.Denom).Equal(preEsc.Sub(req.Amount.Amount)))
		verifAssert("recipient receives exactly the amount", k.bal(ctx, to, req.Amount.Denom).Equal(preTo.Add(req.Amount.Amount)))
	}
	verifAssert("exactly one finalize event", len(eventsOf(ctx, types.EventTypeFinalizeTokenWithdrawal)) == nEv+1)
	// C05 (a): the challenge window has passed (see c05.go for the reference)
	cfg, cfgErr := k.GetBridgeConfig(ctx, b)
	verifAssert("bridge exists", cfgErr == nil)
	verifAssert("output was final: block time + 1s > proposal time + period", refFinal(ctx.BlockTime(), out.L1BlockTime, cfg.FinalizationPeriod))
}

// C03 length checks: non-standard lengths of version / roots / proof items never succeed.
func Harness_C03_Lengths() {
	k, ms, ctx := setup()
	_ = k
	req := symFinalize(0)
	which := verifChoice("badField", 4)
	bad := verifChoice("badLen", 2)
	switch which {
	case 0:
		req.Version = verifSymBytes("req.version2", []int{0, 2}[bad])
	case 1:
		req.StorageRoot = verifSymBytes("req.storageRoot2", []int{31, 33}[bad])
	case 2:
		req.LastBlockHash = verifSymBytes("req.lastBlockHash2", []int{31, 33}[bad])
	case 3:
		req.WithdrawalProofs = [][]byte{verifSymBytes("req.proof2", []int{31, 33}[bad])}
	}
	err, pan := runMsg(ctx, func(c sdk.Context) error { _, e := ms.FinalizeTokenWithdrawal(c, req); return e })
	verifAssert("non-standard lengths never succeed", err != nil || pan)
	verifAssert("non-standard lengths are rejected, not a panic", !pan)
}

// C02 frame: a claim record, once set, survives every message.
func Harness_C02_ClaimsMonotone() {
	boundStores(1, 1)
	verifConfig("maxlen:RegistrationFee", 1)
	k, ms, ctx := setup()
	b := verifSymU64("obsBridge")
	wh := arr32(verifSymBytes("obsClaim", 32))
	pre, _ := k.HasProvenWithdrawal(ctx, b, wh)
	res0, _ := NewQuerier(k).Claimed(ctx, &types.QueryClaimedRequest{BridgeId: b, WithdrawalHash: wh[:]})
	verifAssert("Claimed query returns the stored flag", res0 != nil && res0.Claimed == pre)
	st := anyStep(ms, ctx)
	post, _ := k.HasProvenWithdrawal(ctx, b, wh)
	if pre {
		verifAssert("claim records are never removed", post)
	}
	if post && !pre {
		verifReach("claim recorded")
		verifAssert("a claim record appears only through a successful finalization of that bridge", st.ok() && st.which == mFinalize && st.bridge == b)
	}
}

// C02 composition (thorough): two finalizations of the same six fields — different proofs, output index,
// submitter — never both succeed.
func Harness_C02_DoubleFinalize() {
	k, ms, ctx := setup()
	_ = k
	r1 := symFinalize(verifSymLen("depth1", 0, 1))
	d2 := verifSymLen("depth2", 0, 1)
	proofs2 := make([][]byte, d2)
	for i := range proofs2 {
		proofs2[i] = verifSymBytes("req2.proof", 32)
	}
	r2 := &types.MsgFinalizeTokenWithdrawal{
		Sender: verifSymStr("req2.sender"), BridgeId: r1.BridgeId, OutputIndex: verifSymU64("req2.outputIndex"),
		WithdrawalProofs: proofs2, From: r1.From, To: r1.To, Sequence: r1.Sequence, Amount: r1.Amount,
		Version: verifSymBytes("req2.version", 1), StorageRoot: verifSymBytes("req2.storageRoot", 32), LastBlockHash: verifSymBytes("req2.lastBlockHash", 32),
	}
	e1, p1 := runMsg(ctx, func(c sdk.Context) error { _, e := ms.FinalizeTokenWithdrawal(c, r1); return e })
	e2, p2 := runMsg(ctx, func(c sdk.Context) error { _, e := ms.FinalizeTokenWithdrawal(c, r2); return e })
	if ok(e1, p1) {
		verifReach("first finalize accepted")
	}
	verifAssert("the same withdrawal is never paid twice", !(ok(e1, p1) && ok(e2, p2)))
}
