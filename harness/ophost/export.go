//go:build verif

package keeper

import (
	"cosmossdk.io/math"
	sdk "github.com/cosmos/cosmos-sdk/types"
)

// Exported wrappers for the joint L1/L2 harnesses (C08), which live in package opchild/keeper.

// VerifL1Setup: an ophost keeper and message server over the (second-chain) context it is given.
func VerifL1Setup(ctx sdk.Context) (Keeper, MsgServer) {
	k := verifSym[Keeper]("l1k")
	assumeInv(ctx, k)
	return k, NewMsgServerImpl(k)
}

func VerifL1RunMsg(ctx sdk.Context, fn func(ctx sdk.Context) error) (error, bool) { return runMsg(ctx, fn) }
func VerifL1Bal(k Keeper, ctx sdk.Context, addr sdk.AccAddress, denom string) math.Int {
	return k.bal(ctx, addr, denom)
}
func VerifL1HasBridge(k Keeper, ctx sdk.Context, id uint64) bool { return k.hasBridge(ctx, id) }
func VerifL1NextSeq(k Keeper, ctx sdk.Context, id uint64) uint64 { return k.nextL1(ctx, id) }
func VerifL1Events(ctx sdk.Context, typ string) []sdk.Event      { return eventsOf(ctx, typ) }
func VerifL1AssumeBridge(k Keeper, ctx sdk.Context, id uint64)   { assumeBridgeInv(ctx, k, id) }
func VerifRefL2Denom(id uint64, l1 string) string                { return refL2Denom(id, l1) }
func VerifRefLeaf(bridgeId, seq uint64, sender, receiver, denom string, amount uint64) [32]byte {
	return refLeaf(bridgeId, seq, sender, receiver, denom, amount)
}
func VerifRefOutputRoot(version byte, storageRoot, blockHash [32]byte) [32]byte {
	return refOutputRoot(version, storageRoot, blockHash)
}
func VerifL1Addr(k Keeper, s string) (sdk.AccAddress, bool) { return k.addr(s) }
