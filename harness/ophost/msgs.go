//go:build verif

package keeper

import (
	sdk "github.com/cosmos/cosmos-sdk/types"

	"github.com/initia-labs/OPinit/x/ophost/types"
)

// symbolic requests (every field arbitrary)

func symBatchInfo(p string) types.BatchInfo {
	return types.BatchInfo{Submitter: verifSymStr(p + ".submitter"), ChainType: types.BatchInfo_ChainType(verifSymU64(p + ".chainType"))}
}

func symConfig(p string) types.BridgeConfig {
	return types.BridgeConfig{
		Challenger:            verifSymStr(p + ".challenger"),
		Proposer:              verifSymStr(p + ".proposer"),
		BatchInfo:             symBatchInfo(p + ".batch"),
		SubmissionInterval:    verifSymDuration(p + ".interval"),
		FinalizationPeriod:    verifSymDuration(p + ".period"),
		SubmissionStartHeight: verifSymU64(p + ".startHeight"),
		OracleEnabled:         verifSymBool(p + ".oracle"),
		Metadata:              verifOpaqueBytes(p + ".metadata"),
	}
}

func symFinalize(depth int) *types.MsgFinalizeTokenWithdrawal {
	proofs := make([][]byte, depth)
	for i := range proofs {
		proofs[i] = verifSymBytes("req.proof", 32)
	}
	return &types.MsgFinalizeTokenWithdrawal{
		Sender:           verifSymStr("req.sender"),
		BridgeId:         verifSymU64("req.bridge"),
		OutputIndex:      verifSymU64("req.outputIndex"),
		WithdrawalProofs: proofs,
		From:             verifSymStr("req.from"),
		To:               verifSymStr("req.to"),
		Sequence:         verifSymU64("req.sequence"),
		Amount:           sdk.Coin{Denom: verifSymStr("req.denom"), Amount: verifSymInt("req.amount")},
		Version:          verifSymBytes("req.version", 1),
		StorageRoot:      verifSymBytes("req.storageRoot", 32),
		LastBlockHash:    verifSymBytes("req.lastBlockHash", 32),
	}
}

const (
	mRecordBatch = iota
	mCreateBridge
	mProposeOutput
	mDeleteOutput
	mDeposit
	mFinalize
	mUpdateProposer
	mUpdateChallenger
	mUpdateBatchInfo
	mUpdateOracleConfig
	mUpdateMetadata
	mUpdateParams
	nMsgs
)

// step: what one arbitrary message did
type step struct {
	which    int
	err      error
	pan      bool
	bridge   uint64 // bridge the message names (0 for CreateBridge/UpdateParams)
	signer   string
	created  uint64 // CreateBridge: the new id
	deposit  *types.MsgInitiateTokenDeposit
	finalize *types.MsgFinalizeTokenWithdrawal
	delIndex uint64
	propose  *types.MsgProposeOutput
	fn       func(c sdk.Context) error
	newRole  string // UpdateProposer / UpdateChallenger: the new holder
	resp     any    // the handler's response (C18 compares two executions)
}

func (s step) ok() bool { return s.err == nil && !s.pan }

// anyStep runs one arbitrary L1 message (kind chosen by the solver, all fields symbolic) atomically.
func anyStep(ms MsgServer, ctx sdk.Context) step {
	st := newStep(ms)
	st.run(ctx)
	return *st
}

func (st *step) run(ctx sdk.Context) { st.err, st.pan = runMsg(ctx, st.fn) }

// newStep builds the message (so that the harness can observe the state it names) without running it.
func newStep(ms MsgServer) *step {
	st := &step{which: verifChoice("msg", nMsgs)}
	var fn func(c sdk.Context) error
	switch st.which {
	case mRecordBatch:
		req := &types.MsgRecordBatch{Submitter: verifSymStr("req.submitter"), BridgeId: verifSymU64("req.bridge"), BatchBytes: verifOpaqueBytes("req.batch")}
		st.bridge, st.signer = req.BridgeId, req.Submitter
		fn = func(c sdk.Context) error { r, e := ms.RecordBatch(c, req); st.resp = r; return e }
	case mCreateBridge:
		req := &types.MsgCreateBridge{Creator: verifSymStr("req.creator"), Config: symConfig("req.config")}
		st.signer = req.Creator
		fn = func(c sdk.Context) error {
			r, e := ms.CreateBridge(c, req)
			st.resp = r
			if e == nil {
				st.created = r.BridgeId
			}
			return e
		}
	case mProposeOutput:
		req := &types.MsgProposeOutput{Proposer: verifSymStr("req.proposer"), BridgeId: verifSymU64("req.bridge"), OutputIndex: verifSymU64("req.outputIndex"), L2BlockNumber: verifSymU64("req.l2block"), OutputRoot: verifSymBytes("req.root", 32)}
		st.bridge, st.signer, st.propose = req.BridgeId, req.Proposer, req
		fn = func(c sdk.Context) error { r, e := ms.ProposeOutput(c, req); st.resp = r; return e }
	case mDeleteOutput:
		req := &types.MsgDeleteOutput{Challenger: verifSymStr("req.challenger"), BridgeId: verifSymU64("req.bridge"), OutputIndex: verifSymU64("req.outputIndex")}
		st.bridge, st.signer, st.delIndex = req.BridgeId, req.Challenger, req.OutputIndex
		fn = func(c sdk.Context) error { r, e := ms.DeleteOutput(c, req); st.resp = r; return e }
	case mDeposit:
		req := symDeposit()
		st.bridge, st.signer, st.deposit = req.BridgeId, req.Sender, req
		fn = func(c sdk.Context) error { r, e := ms.InitiateTokenDeposit(c, req); st.resp = r; return e }
	case mFinalize:
		req := symFinalize(verifSymLen("depth", 0, 1))
		st.bridge, st.signer, st.finalize = req.BridgeId, req.Sender, req
		fn = func(c sdk.Context) error { r, e := ms.FinalizeTokenWithdrawal(c, req); st.resp = r; return e }
	case mUpdateProposer:
		req := &types.MsgUpdateProposer{Authority: verifSymStr("req.authority"), BridgeId: verifSymU64("req.bridge"), NewProposer: verifSymStr("req.newProposer")}
		st.bridge, st.signer, st.newRole = req.BridgeId, req.Authority, req.NewProposer
		fn = func(c sdk.Context) error { r, e := ms.UpdateProposer(c, req); st.resp = r; return e }
	case mUpdateChallenger:
		req := &types.MsgUpdateChallenger{Authority: verifSymStr("req.authority"), BridgeId: verifSymU64("req.bridge"), Challenger: verifSymStr("req.newChallenger")}
		st.bridge, st.signer, st.newRole = req.BridgeId, req.Authority, req.Challenger
		fn = func(c sdk.Context) error { r, e := ms.UpdateChallenger(c, req); st.resp = r; return e }
	case mUpdateBatchInfo:
		req := &types.MsgUpdateBatchInfo{Authority: verifSymStr("req.authority"), BridgeId: verifSymU64("req.bridge"), NewBatchInfo: symBatchInfo("req.newBatch")}
		st.bridge, st.signer = req.BridgeId, req.Authority
		fn = func(c sdk.Context) error { r, e := ms.UpdateBatchInfo(c, req); st.resp = r; return e }
	case mUpdateOracleConfig:
		req := &types.MsgUpdateOracleConfig{Authority: verifSymStr("req.authority"), BridgeId: verifSymU64("req.bridge"), OracleEnabled: verifSymBool("req.oracleEnabled")}
		st.bridge, st.signer = req.BridgeId, req.Authority
		fn = func(c sdk.Context) error { r, e := ms.UpdateOracleConfig(c, req); st.resp = r; return e }
	case mUpdateMetadata:
		req := &types.MsgUpdateMetadata{Authority: verifSymStr("req.authority"), BridgeId: verifSymU64("req.bridge"), Metadata: verifOpaqueBytes("req.metadata")}
		st.bridge, st.signer = req.BridgeId, req.Authority
		fn = func(c sdk.Context) error { r, e := ms.UpdateMetadata(c, req); st.resp = r; return e }
	default:
		p := verifSym[types.Params]("req.params")
		req := &types.MsgUpdateParams{Authority: verifSymStr("req.authority"), Params: &p}
		st.signer = req.Authority
		fn = func(c sdk.Context) error { r, e := ms.UpdateParams(c, req); st.resp = r; return e }
	}
	st.fn = fn
	return st
}

// closed-world bounds for the stores that handlers iterate
func boundStores(outputs, batches int) {
	verifConfig("store:OutputProposals", outputs)
	verifConfig("store:BatchInfos", batches)
	verifConfig("slack", 3) // the bound is on the pre-state; messages may add entries beyond it
}
