//go:build verif

package keeper

import (
	"bytes"

	"cosmossdk.io/math"
	sdk "github.com/cosmos/cosmos-sdk/types"

	"github.com/initia-labs/OPinit/x/ophost/types"
)

// setup: a keeper over an arbitrary (symbolic) pre-state and an arbitrary block context.
func setup() (Keeper, MsgServer, sdk.Context) {
	k := verifSym[Keeper]("k")
	ctx := verifSym[sdk.Context]("ctx")
	assumeInv(ctx, k)
	return k, NewMsgServerImpl(k), ctx
}

// assumeInv: the part of the reachable-state invariant every harness relies on — module parameters are present
// (InitGenesis writes them and nothing removes them).
func assumeInv(ctx sdk.Context, k Keeper) {
	_, err := k.Params.Get(ctx)
	verifAssume(err == nil)
}

// assumeBridgeInv: reachable-state facts about an existing bridge b (Appendix A, H1/H3): ids are handed out by
// the NextBridgeId counter, so an existing bridge has 1 <= b < next id; both are re-established by the
// C10 freshness harness.
func assumeBridgeInv(ctx sdk.Context, k Keeper, b uint64) {
	next, err := k.GetNextBridgeId(ctx)
	verifAssume(err == nil && b >= 1 && b < next)
}

// runMsg executes one message the way baseapp does: on a cache of the state, committed only on success;
// an error or a panic discards every write.
func runMsg(ctx sdk.Context, fn func(ctx sdk.Context) error) (err error, panicked bool) {
	cc, write := ctx.CacheContext()
	defer func() {
		if r := recover(); r != nil {
			panicked = true
		}
	}()
	err = fn(cc)
	verifNote("handler error", err)
	if err == nil {
		write()
	}
	return
}

func ok(err error, panicked bool) bool { return err == nil && !panicked }

func (k Keeper) bal(ctx sdk.Context, addr sdk.AccAddress, denom string) math.Int {
	return k.bankKeeper.GetBalance(ctx, addr, denom).Amount
}

func (k Keeper) addr(s string) (sdk.AccAddress, bool) {
	a, err := k.authKeeper.AddressCodec().StringToBytes(s)
	return a, err == nil
}

func (k Keeper) hasBridge(ctx sdk.Context, id uint64) bool {
	_, err := k.GetBridgeConfig(ctx, id)
	return err == nil
}

func (k Keeper) nextL1(ctx sdk.Context, id uint64) uint64 {
	n, err := k.GetNextL1Sequence(ctx, id)
	if err != nil {
		panic(err)
	}
	return n
}

func (k Keeper) nextOut(ctx sdk.Context, id uint64) uint64 {
	n, err := k.GetNextOutputIndex(ctx, id)
	if err != nil {
		panic(err)
	}
	return n
}

func (k Keeper) tokenPair(ctx sdk.Context, id uint64, l2 string) (string, bool) {
	d, err := k.GetTokenPair(ctx, id, l2)
	return d, err == nil
}

// events of a given type emitted on ctx, oldest first
func eventsOf(ctx sdk.Context, typ string) []sdk.Event {
	var out []sdk.Event
	for _, ev := range ctx.EventManager().Events() {
		if ev.Type == typ {
			out = append(out, ev)
		}
	}
	return out
}

func attr(ev sdk.Event, key string) (string, bool) {
	for _, a := range ev.Attributes {
		if a.Key == key {
			return a.Value, true
		}
	}
	return "", false
}

func attrIs(ev sdk.Event, key, want string) bool {
	v, found := attr(ev, key)
	return found && v == want
}

func sameAddr(a, b sdk.AccAddress) bool { return bytes.Equal(a, b) }

var _ = types.ModuleName
