//go:build verif

package keeper

import (
	"cosmossdk.io/math"
	sdk "github.com/cosmos/cosmos-sdk/types"

	"github.com/initia-labs/OPinit/x/ophost/types"
)

// claimable: what the L2 side guarantees about every withdrawal it records (user-initiated or refund) — the
// same predicate is asserted on the L2 side in harness/opchild/c04.go. Together: every recorded withdrawal
// with a positive amount and a valid L1 recipient can be finalized.
func claimableAmount(a math.Int) bool { return a.IsPositive() && a.IsUint64() }

// reference prover: sorted-pair Merkle tree, level by level; an unpaired last node is promoted unchanged.
func refProve(leaves [][32]byte, pos int) (root [32]byte, proof [][]byte) {
	level := leaves
	for len(level) > 1 {
		var next [][32]byte
		for i := 0; i+1 < len(level); i += 2 {
			next = append(next, refNode(level[i], level[i+1]))
		}
		if len(level)%2 == 1 {
			next = append(next, level[len(level)-1])
		}
		if pos^1 < len(level) {
			sib := level[pos^1]
			proof = append(proof, sib[:])
		}
		pos /= 2
		level = next
	}
	return level[0], proof
}

// C04 (L1 half): an honest output over a tree containing the withdrawal, finalized, with a funded escrow ⇒
// FinalizeTokenWithdrawal succeeds, for every amount / denom / address string / tree size / leaf position.
func Harness_C04_L1_Claimable() {
	k, ms, ctx := setup()
	b, seq := verifSymU64("wd.bridge"), verifSymU64("wd.sequence")
	from, to, denom := verifSymStr("wd.from"), verifSymStr("wd.to"), verifSymStr("wd.denom")
	amount := verifSymInt("wd.amount")
	sender := verifSymStr("claim.sender")
	// what L2 recorded
	verifAssume(claimableAmount(amount))
	verifAssume(len(from) > 0 && seq >= 1 && b >= 1)
	verifAssume(sdk.ValidateDenom(denom) == nil)
	toAddr, toOK := k.addr(to)
	verifAssume(toOK) // the property is about withdrawals with a valid L1 recipient
	_, sOK := k.addr(sender)
	verifAssume(sOK)
	// honest tree
	n := 3
	if verifThorough() {
		n = 6
	}
	nleaves := verifSymLen("tree.leaves", 1, n)
	pos := verifChoice("tree.pos", nleaves)
	leaves := make([][32]byte, nleaves)
	for i := range leaves {
		leaves[i] = arr32(verifSymBytes("tree.leaf", 32))
	}
	leaves[pos] = refLeaf(b, seq, from, to, denom, amount.Uint64())
	storageRoot, proof := refProve(leaves, pos)
	version := verifSymBytes("out.version", 1)
	lbh := verifSymBytes("out.lastBlockHash", 32)
	outRoot := refOutputRoot(version[0], storageRoot, arr32(lbh))
	idx := verifSymU64("out.index")
	verifAssume(idx >= 1)
	// pre-state: bridge exists, output stored and final, escrow funded, not yet claimed
	cfg, cerr := k.GetBridgeConfig(ctx, b)
	verifAssume(cerr == nil && cfg.FinalizationPeriod > 0)
	out := types.Output{OutputRoot: outRoot[:], L1BlockNumber: verifSymU64("out.l1height"), L1BlockTime: verifSymTime("out.proposed"), L2BlockNumber: verifSymU64("out.l2height")}
	if k.SetOutputProposal(ctx, b, idx, out) != nil {
		return
	}
	verifAssume(refFinalStrict(ctx.BlockTime(), out.L1BlockTime, cfg.FinalizationPeriod))
	leaf := leaves[pos]
	claimed, _ := k.HasProvenWithdrawal(ctx, b, leaf)
	verifAssume(!claimed)
	escrow := types.BridgeAddress(b)
	verifAssume(k.bal(ctx, escrow, denom).GTE(amount))
	_ = toAddr
	req := &types.MsgFinalizeTokenWithdrawal{Sender: sender, BridgeId: b, OutputIndex: idx, WithdrawalProofs: proof, From: from, To: to,
		Sequence: seq, Amount: sdk.NewCoin(denom, amount), Version: version, StorageRoot: storageRoot[:], LastBlockHash: lbh}
	err, pan := runMsg(ctx, func(c sdk.Context) error { _, e := ms.FinalizeTokenWithdrawal(c, req); return e })
	verifReach("claim attempted")
	verifAssert("a recorded withdrawal can be claimed: no panic", !pan)
	verifAssert("a recorded withdrawal can be claimed: no error", err == nil)
}

// C04 (L1 deposit entry point): what L1 accepts as a deposit must be refundable, i.e. must itself fit the
// withdrawal format should the L2 have to refund it.
func Harness_C04_L1_DepositRefundable() {
	k, ms, ctx := setup()
	_ = k
	req := symDeposit()
	err, pan := runMsg(ctx, func(c sdk.Context) error { _, e := ms.InitiateTokenDeposit(c, req); return e })
	if ok(err, pan) && req.Amount.Amount.IsPositive() {
		verifReach("deposit accepted")
		verifAssert("an accepted deposit can be refunded as a withdrawal (amount fits 64 bits)", claimableAmount(req.Amount.Amount))
	}
}
