//go:build verif

package keeper

import (
	"context"
	"errors"

	sdk "github.com/cosmos/cosmos-sdk/types"

	"github.com/initia-labs/OPinit/x/ophost/types"
)

// a recording bridge hook: remembers what it was handed, fails when told to
type recHook struct {
	calls  *[]recCall
	failAt int
}

type recCall struct {
	kind   string
	bridge uint64
	cfg    types.BridgeConfig
	stored types.BridgeConfig
	had    bool
}

type recEnv struct {
	k Keeper
}

var recK *Keeper

func (h recHook) rec(ctx context.Context, kind string, id uint64, cfg types.BridgeConfig) error {
	stored, err := recK.GetBridgeConfig(ctx, id)
	*h.calls = append(*h.calls, recCall{kind, id, cfg, stored, err == nil})
	if h.failAt == len(*h.calls) {
		return errors.New("hook refuses")
	}
	return nil
}
func (h recHook) BridgeCreated(ctx context.Context, id uint64, c types.BridgeConfig) error {
	return h.rec(ctx, "created", id, c)
}
func (h recHook) BridgeChallengerUpdated(ctx context.Context, id uint64, c types.BridgeConfig) error {
	return h.rec(ctx, "challenger", id, c)
}
func (h recHook) BridgeProposerUpdated(ctx context.Context, id uint64, c types.BridgeConfig) error {
	return h.rec(ctx, "proposer", id, c)
}
func (h recHook) BridgeBatchInfoUpdated(ctx context.Context, id uint64, c types.BridgeConfig) error {
	return h.rec(ctx, "batchinfo", id, c)
}
func (h recHook) BridgeMetadataUpdated(ctx context.Context, id uint64, c types.BridgeConfig) error {
	return h.rec(ctx, "metadata", id, c)
}

// C19 (handler half): the three handlers hand the hook the *new* challenger / metadata before storing it, and
// a hook error aborts the whole message.
func Harness_C19_HandlersCallHook() {
	boundStores(1, 1)
	verifConfig("maxlen:RegistrationFee", 1)
	k, _, ctx := setup()
	var calls []recCall
	fail := verifChoice("hook.fails", 2)
	k.bridgeHook = recHook{calls: &calls, failAt: fail}
	recK = &k
	ms := NewMsgServerImpl(k)
	st := newStep(ms)
	verifAssume(st.which == mCreateBridge || st.which == mUpdateChallenger || st.which == mUpdateMetadata)
	pre, preErr := k.GetBridgeConfig(ctx, st.bridge)
	st.run(ctx)
	if st.ok() {
		verifReach("handler succeeded")
		verifAssert("the hook was consulted exactly once", len(calls) == 1)
		verifAssert("a failing hook aborts the message", fail == 0)
		if len(calls) != 1 {
			return
		}
		c := calls[0]
		switch st.which {
		case mCreateBridge:
			post, perr := k.GetBridgeConfig(ctx, st.created)
			verifAssert("creation hook names the new bridge", c.kind == "created" && c.bridge == st.created && perr == nil)
			verifAssert("creation hook sees the stored challenger and metadata", c.cfg.Challenger == post.Challenger && string(c.cfg.Metadata) == string(post.Metadata))
		case mUpdateChallenger:
			post, _ := k.GetBridgeConfig(ctx, st.bridge)
			verifAssert("challenger hook sees the new challenger", c.kind == "challenger" && c.bridge == st.bridge && c.cfg.Challenger == st.newRole && post.Challenger == st.newRole)
			verifAssert("challenger hook sees the bridge's metadata", preErr == nil && string(c.cfg.Metadata) == string(pre.Metadata))
			verifAssert("challenger hook runs before the new config is stored", c.had && c.stored.Challenger == pre.Challenger)
		case mUpdateMetadata:
			post, _ := k.GetBridgeConfig(ctx, st.bridge)
			verifAssert("metadata hook sees the new metadata and the current challenger", c.kind == "metadata" && c.bridge == st.bridge && string(c.cfg.Metadata) == string(post.Metadata) && preErr == nil && c.cfg.Challenger == pre.Challenger)
		}
	} else if fail == 1 && len(calls) == 1 {
		verifReach("hook failure aborts")
		post, postErr := k.GetBridgeConfig(ctx, st.bridge)
		verifAssert("an aborted message leaves the config as it was", (preErr == nil) == (postErr == nil) && sameConfig(pre, post))
	}
}

var _ = sdk.AccAddress{}
