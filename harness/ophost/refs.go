//go:build verif

package keeper

import (
	"bytes"
	"encoding/hex"

	"golang.org/x/crypto/sha3"
)

// independent reference implementations of the documented formats

func refBE64(v uint64) []byte {
	b := make([]byte, 8)
	for i := 0; i < 8; i++ {
		b[7-i] = byte(v >> (8 * uint(i)))
	}
	return b
}

func refL2Denom(id uint64, l1 string) string {
	buf := refBE64(id)
	buf = append(buf, l1...)
	h := sha3.Sum256(buf)
	return "l2/" + hex.EncodeToString(h[:])
}

func refLeaf(bridgeId, seq uint64, sender, receiver, denom string, amount uint64) [32]byte {
	buf := make([]byte, 0, 8+8+32+32+32+8)
	buf = append(buf, refBE64(bridgeId)...)
	buf = append(buf, refBE64(seq)...)
	s := sha3.Sum256([]byte(sender))
	buf = append(buf, s[:]...)
	r := sha3.Sum256([]byte(receiver))
	buf = append(buf, r[:]...)
	d := sha3.Sum256([]byte(denom))
	buf = append(buf, d[:]...)
	buf = append(buf, refBE64(amount)...)
	h := sha3.Sum256(buf)
	return sha3.Sum256(h[:])
}

func refNode(a, b [32]byte) [32]byte {
	lo, hi := a, b
	if bytes.Compare(a[:], b[:]) > 0 {
		lo, hi = b, a
	}
	var buf [64]byte
	copy(buf[:32], lo[:])
	copy(buf[32:], hi[:])
	return sha3.Sum256(buf[:])
}

func refOutputRoot(version byte, storageRoot, blockHash [32]byte) [32]byte {
	var buf [65]byte
	buf[0] = version
	copy(buf[1:33], storageRoot[:])
	copy(buf[33:], blockHash[:])
	return sha3.Sum256(buf[:])
}

func arr32(b []byte) (a [32]byte) { copy(a[:], b); return }
