//go:build verif

package keeper

import (
	storetypes "cosmossdk.io/store/types"
	sdk "github.com/cosmos/cosmos-sdk/types"
)

// C18 (determinism) by self-composition — see harness/opchild/c18.go for the idea. L1 side.

type run18 struct {
	err  error
	pan  bool
	resp any
	ctx  sdk.Context
}

// each execution runs on a goroutine of its own (natively; symbolically the call is sequential): per-goroutine and
// per-process runtime data that leaks into state or events differs between the two, as it would between nodes
func exec18(ctx sdk.Context, fn func(c sdk.Context) (any, error)) (r run18) {
	verifGo(func() { r = exec18on(ctx, fn) })
	return
}

func exec18on(ctx sdk.Context, fn func(c sdk.Context) (any, error)) (r run18) {
	r.ctx, _ = ctx.CacheContext()
	r.ctx = r.ctx.WithGasMeter(storetypes.NewInfiniteGasMeter())
	defer func() {
		if rec := recover(); rec != nil {
			r.pan = true
		}
	}()
	r.resp, r.err = fn(r.ctx)
	return
}

func twice18(ctx sdk.Context, fn func(c sdk.Context) (any, error)) {
	verifEnvBegin()
	a := exec18(ctx, fn)
	for i := 0; i < verifRepeat(); i++ { // one symbolic second execution; repeated natively (random map order)
		verifEnvReplay()
		b := exec18(ctx, fn)
		same18(a, b)
	}
	verifEnvEnd()
}

func same18(a, b run18) {
	verifAssert("both executions panic or neither does", a.pan == b.pan)
	if a.pan || b.pan {
		return
	}
	verifAssert("identical errors", verifDeepEq(a.err, b.err))
	verifAssert("identical responses", verifDeepEq(a.resp, b.resp))
	verifAssert("identical events in identical order", verifSameEvents(a.ctx, b.ctx))
	verifAssert("identical module state", verifSameState(a.ctx, b.ctx))
	verifReach("compared")
}

// every L1 message
func Harness_C18_L1_MsgStep() {
	n := 1
	if verifThorough() {
		n = 2
	}
	boundStores(n, n)
	verifConfig("maporder", 1)
	_, ms, ctx := setup()
	st := newStep(ms)
	fn := func(c sdk.Context) (any, error) {
		st.resp = nil
		e := st.fn(c)
		return st.resp, e
	}
	twice18(ctx, fn)
}

// the constructed states of the genesis harnesses: up to one bridge (quick) / two bridges (thorough) with one
// entry per per-bridge collection (C16's thorough shape — two entries each — run twice exceeds the path budget)
func buildState18(ctx sdk.Context, k Keeper) {
	if verifThorough() {
		buildStateShape(ctx, k, 0, 2, 1)
		return
	}
	buildState(ctx, k)
}

// genesis export of a constructed state (the shapes of C16): same state, same exported genesis
func Harness_C18_L1_ExportGenesis() {
	verifConfig("emptystate", 1)
	verifConfig("nolimit", 1)
	verifConfig("maxlen:RegistrationFee", 1)
	verifConfig("maporder", 1)
	k := verifSym[Keeper]("k")
	ctx := verifSym[sdk.Context]("ctx")
	buildState18(ctx, k)
	fn := func(c sdk.Context) (any, error) { return k.ExportGenesis(c), nil }
	twice18(ctx, fn)
}

// genesis import: the same genesis initialises two fresh chains identically
func Harness_C18_L1_InitGenesis() {
	verifConfig("emptystate", 1)
	verifConfig("nolimit", 1)
	verifConfig("maxlen:RegistrationFee", 1)
	verifConfig("maporder", 1)
	k := verifSym[Keeper]("k")
	ctx := verifSym[sdk.Context]("ctx")
	buildState18(ctx, k)
	gs := k.ExportGenesis(ctx)
	fresh := verifFreshChain(ctx)
	fn := func(c sdk.Context) (any, error) { k.InitGenesis(c, gs); return nil, nil }
	twice18(fresh, fn)
}
