//go:build verif && !verifnative

package keeper

import (
	sdk "github.com/cosmos/cosmos-sdk/types"
	"time"

	"cosmossdk.io/math"
)

// Intrinsics intercepted by the symbolic engine by name; the bodies are never executed symbolically.
// The native replay build replaces this file with bodies that read the solver's model.

func verifSym[T any](name string) T                { panic("verif intrinsic") }
func verifSymU64(name string) uint64               { panic("verif intrinsic") }
func verifSymU8(name string) uint8                 { panic("verif intrinsic") }
func verifSymBool(name string) bool                { panic("verif intrinsic") }
func verifSymStr(name string) string               { panic("verif intrinsic") }
func verifSymInt(name string) math.Int             { panic("verif intrinsic") }
func verifSymDuration(name string) time.Duration   { panic("verif intrinsic") }
func verifSymTime(name string) time.Time           { panic("verif intrinsic") }
func verifSymBytes(name string, n int) []byte      { panic("verif intrinsic") }
func verifOpaqueBytes(name string) []byte          { panic("verif intrinsic") }
func verifSymLen(name string, lo, hi int) int      { panic("verif intrinsic") }
func verifChoice(name string, n int) int           { panic("verif intrinsic") }
func verifAssume(c bool)                           { panic("verif intrinsic") }
func verifAssert(label string, c bool)             { panic("verif intrinsic") }
func verifReach(label string)                      { panic("verif intrinsic") }
func verifKnown(id string, c bool) bool            { panic("verif intrinsic") }
func verifThorough() bool                          { panic("verif intrinsic") }
func verifConfig(key string, val int)              { panic("verif intrinsic") }
func verifIdealHash()                              { panic("verif intrinsic") }
func verifNote(label string, v any)                { panic("verif intrinsic") }
func verifSymQty64(name string) int64               { panic("verif intrinsic") }
func verifFreshChain(ctx sdk.Context) sdk.Context { panic("verif intrinsic") }

// self-composition observations (C18)
func verifSameState(a, b sdk.Context) bool  { panic("verif intrinsic") }
func verifSameEvents(a, b sdk.Context) bool { panic("verif intrinsic") }
func verifDeepEq(x, y any) bool             { panic("verif intrinsic") }
func verifEnvBegin()                        { panic("verif intrinsic") }
func verifEnvReplay()                       { panic("verif intrinsic") }
func verifEnvEnd()                          { panic("verif intrinsic") }
func verifRepeat() int                      { panic("verif intrinsic") }
func verifGo(fn func())                     { panic("verif intrinsic") }

func verifSymQtyU64(name string) uint64 { panic("verif intrinsic") }
