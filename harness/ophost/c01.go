//go:build verif

package keeper

import (
	sdk "github.com/cosmos/cosmos-sdk/types"

	"github.com/initia-labs/OPinit/x/ophost/types"
)

// C01 (1)+(2): ledger formula for the escrow of an arbitrary bridge a and denom d under one arbitrary message.
func Harness_C01_EscrowLedger() {
	boundStores(1, 1)
	verifConfig("maxlen:RegistrationFee", 1)
	k, ms, ctx := setup()
	a := verifSymU64("bridgeA")
	d := verifSymStr("denomD")
	escrowA := types.BridgeAddress(a)
	preEsc := k.bal(ctx, escrowA, d)

	st := anyStep(ms, ctx)
	postEsc := k.bal(ctx, escrowA, d)
	// the signer of a message can never be an escrow account (nobody holds a key for a derived address)
	verifAssume(!signerIs(k, st, escrowA))
	switch {
	case st.ok() && st.which == mDeposit && st.bridge == a && st.deposit.Amount.Denom == d:
		verifReach("deposit into a")
		verifAssert("deposit credits the escrow by exactly the amount", postEsc.Equal(preEsc.Add(st.deposit.Amount.Amount)))
	case st.ok() && st.which == mFinalize && st.bridge == a && st.finalize.Amount.Denom == d:
		verifReach("withdrawal from a")
		if !recipientIs(k, st, escrowA) {
			verifAssert("finalized withdrawal debits the escrow by exactly the amount", postEsc.Equal(preEsc.Sub(st.finalize.Amount.Amount)))
		}
	default:
		// a withdrawal of another bridge may name this escrow as its recipient: that is a plain transfer *to* it
		verifAssert("escrow of a changes only by deposits into a and withdrawals from a", postEsc.Equal(preEsc) ||
			(st.ok() && st.which == mFinalize && st.bridge != a && recipientIs(k, st, escrowA) && postEsc.GT(preEsc)))
	}
	verifAssert("escrow decreases only through a successful withdrawal of the same bridge",
		postEsc.GTE(preEsc) || (st.ok() && st.which == mFinalize && st.bridge == a))
	if !st.ok() {
		verifAssert("a failed message moves no escrow funds", postEsc.Equal(preEsc))
	}
}

// C01 (4): accounts other than depositor / recipient / the bridge's escrow / fee payer are untouched.
func Harness_C01_ThirdParty() {
	boundStores(1, 1)
	verifConfig("maxlen:RegistrationFee", 1)
	k, ms, ctx := setup()
	xs := verifSymStr("acctX")
	x, xOK := k.addr(xs)
	verifAssume(xOK)
	dx := verifSymStr("denomX")
	verifAssume(sdk.ValidateDenom(dx) == nil) // only valid denoms can be held (the bank panics on others)
	preX := k.bal(ctx, x, dx)

	st := anyStep(ms, ctx)
	party := signerIs(k, st, x)
	switch st.which {
	case mFinalize:
		party = party || recipientIs(k, st, x) || sameAddr(x, types.BridgeAddress(st.bridge))
	case mDeposit:
		party = party || sameAddr(x, types.BridgeAddress(st.bridge))
	case mCreateBridge:
		party = party || sameAddr(x, sdk.AccAddress(communityPoolAddr()))
	}
	if !party {
		verifAssert("accounts other than depositor, recipient, escrow and fee payer are untouched", k.bal(ctx, x, dx).Equal(preX))
	}
	if st.which != mDeposit && st.which != mFinalize && st.which != mCreateBridge {
		verifAssert("only deposits, withdrawals and the creation fee move funds", k.bal(ctx, x, dx).Equal(preX))
	}
}

// C01 (3): a message naming another bridge changes nothing recorded under bridge a. One observation per
// harness keeps the pre-state case split small.
func isoSetup() (Keeper, MsgServer, sdk.Context, uint64) { return isoSetupN(1) }

// isoSetupN: outputs = closed-world bound on stored outputs in the quick tier (one more in thorough)
func isoSetupN(outputs int) (Keeper, MsgServer, sdk.Context, uint64) {
	if verifThorough() {
		boundStores(outputs+1, 2)
	} else {
		boundStores(outputs, 1)
	}
	verifConfig("maxlen:RegistrationFee", 1)
	k, ms, ctx := setup()
	return k, ms, ctx, verifSymU64("bridgeA")
}

func foreign(st step, a uint64) bool {
	return st.bridge != a && !(st.which == mCreateBridge && st.ok() && st.created == a)
}

func Harness_C01_Isolation_Sequences() {
	k, ms, ctx, a := isoSetup()
	seqA, outA := k.nextL1(ctx, a), k.nextOut(ctx, a)
	st := anyStep(ms, ctx)
	if foreign(st, a) {
		verifAssert("other bridge's deposit sequence untouched", k.nextL1(ctx, a) == seqA)
		verifAssert("other bridge's output counter untouched", k.nextOut(ctx, a) == outA)
	}
}

func Harness_C01_Isolation_Outputs() {
	// two stored outputs even in the quick tier: a message on one bridge that removes an output of another
	// bridge needs an output under each of them
	k, ms, ctx, a := isoSetupN(2)
	oi := verifSymU64("obsIndex")
	outPre, outPreErr := k.GetOutputProposal(ctx, a, oi)
	st := anyStep(ms, ctx)
	if foreign(st, a) {
		outPost, outPostErr := k.GetOutputProposal(ctx, a, oi)
		verifAssert("other bridge's outputs untouched", (outPreErr == nil) == (outPostErr == nil) && sameOutput(outPre, outPost))
	}
}

func Harness_C01_Isolation_Claims() {
	k, ms, ctx, a := isoSetup()
	wh := arr32(verifSymBytes("obsClaim", 32))
	claimPre, _ := k.HasProvenWithdrawal(ctx, a, wh)
	st := anyStep(ms, ctx)
	if foreign(st, a) {
		claimPost, _ := k.HasProvenWithdrawal(ctx, a, wh)
		verifAssert("other bridge's claim records untouched", claimPost == claimPre)
	}
}

func Harness_C01_Isolation_Config() {
	k, ms, ctx, a := isoSetup()
	cfgPre, cfgPreErr := k.GetBridgeConfig(ctx, a)
	l2 := verifSymStr("obsL2Denom")
	pairPre, hadPair := k.tokenPair(ctx, a, l2)
	st := anyStep(ms, ctx)
	if foreign(st, a) {
		cfgPost, cfgPostErr := k.GetBridgeConfig(ctx, a)
		verifAssert("other bridge's config untouched", (cfgPreErr == nil) == (cfgPostErr == nil) && sameConfig(cfgPre, cfgPost))
		pairPost, hasPair := k.tokenPair(ctx, a, l2)
		verifAssert("other bridge's token pairs untouched", hadPair == hasPair && pairPre == pairPost)
	}
}

func recipientIs(k Keeper, st step, who sdk.AccAddress) bool {
	if st.finalize == nil {
		return false
	}
	to, ok := k.addr(st.finalize.To)
	return ok && sameAddr(to, who)
}

func signerIs(k Keeper, st step, who sdk.AccAddress) bool {
	s, ok := k.addr(st.signer)
	return ok && sameAddr(s, who)
}

func sameOutput(a, b types.Output) bool {
	return string(a.OutputRoot) == string(b.OutputRoot) && a.L1BlockNumber == b.L1BlockNumber && a.L2BlockNumber == b.L2BlockNumber && a.L1BlockTime.Equal(b.L1BlockTime)
}

func sameConfig(a, b types.BridgeConfig) bool {
	return a.Challenger == b.Challenger && a.Proposer == b.Proposer && a.BatchInfo == b.BatchInfo &&
		a.SubmissionInterval == b.SubmissionInterval && a.FinalizationPeriod == b.FinalizationPeriod &&
		a.SubmissionStartHeight == b.SubmissionStartHeight && a.OracleEnabled == b.OracleEnabled && string(a.Metadata) == string(b.Metadata)
}
