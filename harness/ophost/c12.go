//go:build verif

package keeper

// C12 (L1 half): every permissioned L1 message succeeds only for a signer that currently holds an allowed
// role; role updates take effect immediately; nothing else rewrites the roles.
func Harness_C12_L1_Auth() {
	boundStores(1, 1)
	verifConfig("maxlen:RegistrationFee", 1)
	k, ms, ctx := setup()
	st := newStep(ms)
	verifAssume(st.which != mRecordBatch && st.which != mCreateBridge && st.which != mDeposit && st.which != mFinalize) // permissionless
	cfg, cerr := k.GetBridgeConfig(ctx, st.bridge)
	gov := k.authority
	st.run(ctx)
	if !st.ok() {
		verifReach("rejected")
		return
	}
	verifReach("accepted")
	s := st.signer
	switch st.which {
	case mUpdateParams:
		verifAssert("parameter updates need governance", s == gov)
		return
	}
	verifAssert("permissioned messages need an existing bridge", cerr == nil)
	switch st.which {
	case mProposeOutput:
		verifAssert("proposing needs the current proposer", s == cfg.Proposer)
	case mDeleteOutput:
		verifAssert("deleting needs governance, proposer or challenger", s == gov || s == cfg.Proposer || s == cfg.Challenger)
	case mUpdateProposer, mUpdateBatchInfo, mUpdateMetadata, mUpdateOracleConfig:
		verifAssert("proposer/batch/metadata/oracle updates need governance or the proposer", s == gov || s == cfg.Proposer)
	case mUpdateChallenger:
		verifAssert("challenger updates need governance or the challenger", s == gov || s == cfg.Challenger)
	}
	post, perr := k.GetBridgeConfig(ctx, st.bridge)
	verifAssert("bridge still exists", perr == nil)
	switch st.which {
	case mUpdateProposer:
		verifAssert("new proposer takes effect immediately", post.Proposer == st.newRole)
		verifAssert("challenger unchanged by a proposer update", post.Challenger == cfg.Challenger)
	case mUpdateChallenger:
		verifAssert("new challenger takes effect immediately", post.Challenger == st.newRole)
		verifAssert("proposer unchanged by a challenger update", post.Proposer == cfg.Proposer)
	default:
		verifAssert("roles change only through their update messages", post.Proposer == cfg.Proposer && post.Challenger == cfg.Challenger)
	}
}

// C12 frame: the roles of an arbitrary existing bridge change only through a successful update message that
// names that bridge.
func Harness_C12_L1_RoleFrame() {
	boundStores(1, 1)
	verifConfig("maxlen:RegistrationFee", 1)
	k, ms, ctx := setup()
	b := verifSymU64("obsBridge")
	cfg, cerr := k.GetBridgeConfig(ctx, b)
	verifAssume(cerr == nil)
	assumeBridgeInv(ctx, k, b)
	st := anyStep(ms, ctx)
	post, perr := k.GetBridgeConfig(ctx, b)
	verifAssert("bridge still exists", perr == nil)
	if post.Proposer != cfg.Proposer {
		verifAssert("proposer changes only through a successful UpdateProposer of that bridge", st.ok() && st.which == mUpdateProposer && st.bridge == b)
	}
	if post.Challenger != cfg.Challenger {
		verifAssert("challenger changes only through a successful UpdateChallenger of that bridge", st.ok() && st.which == mUpdateChallenger && st.bridge == b)
	}
}
