//go:build verif

package keeper

import (
	"cosmossdk.io/collections"
	sdk "github.com/cosmos/cosmos-sdk/types"

	"github.com/initia-labs/OPinit/x/ophost/types"
)

type outRec struct {
	idx uint64
	out types.Output
}

func outputsOf(ctx sdk.Context, k Keeper, b uint64) []outRec {
	var outs []outRec
	err := k.IterateOutputProposals(ctx, b, func(key collections.Pair[uint64, uint64], o types.Output) (bool, error) {
		outs = append(outs, outRec{key.K2(), o})
		return false, nil
	})
	if err != nil {
		panic(err)
	}
	return outs
}

// logInv: the stored outputs of bridge b occupy exactly 1..next-1, L2 block numbers strictly increase, L1
// proposal times never decrease and none lies in the future.
func logInv(ctx sdk.Context, k Keeper, b uint64) bool {
	outs := outputsOf(ctx, k, b)
	next := k.nextOut(ctx, b)
	if next < 1 || uint64(len(outs)) != next-1 {
		return false
	}
	for j, r := range outs {
		if r.idx != uint64(j+1) {
			return false
		}
		if r.out.L1BlockTime.After(ctx.BlockTime()) {
			return false
		}
		if j > 0 {
			if !(outs[j-1].out.L2BlockNumber < r.out.L2BlockNumber) {
				return false
			}
			if r.out.L1BlockTime.Before(outs[j-1].out.L1BlockTime) {
				return false
			}
		}
	}
	return true
}

func c11Bounds() {
	if verifThorough() {
		boundStores(3, 1)
	} else {
		boundStores(2, 1)
	}
	verifConfig("maxlen:RegistrationFee", 1)
}

// C11 Step: the log invariant of an arbitrary bridge is preserved by every message; final outputs form a prefix.
func Harness_C11_InvStep() {
	c11Bounds()
	k, ms, ctx := setup()
	b := verifSymU64("obsBridge")
	verifAssume(logInv(ctx, k, b))
	cfg, cerr := k.GetBridgeConfig(ctx, b)
	if cerr == nil {
		assumeBridgeInv(ctx, k, b)
		verifAssume(cfg.FinalizationPeriod > 0)
		// final outputs form a prefix (time monotonicity)
		outs := outputsOf(ctx, k, b)
		for j := 1; j < len(outs); j++ {
			fj, _ := k.isFinalizedWithConfig(ctx, cfg, outs[j].out)
			fp, _ := k.isFinalizedWithConfig(ctx, cfg, outs[j-1].out)
			if fj {
				verifAssert("final outputs form a prefix", fp)
			}
		}
	} else {
		// no outputs are recorded under an id without a bridge (H2)
		verifAssume(len(outputsOf(ctx, k, b)) == 0 && k.nextOut(ctx, b) == 1)
		next, _ := k.GetNextBridgeId(ctx)
		verifAssume(b == 0 || b >= next)
	}
	// only proposals and deletions write outputs or the counter (Harness_C11_OutputsFrame shows it for the rest)
	st := newStep(ms)
	verifAssume(st.which == mProposeOutput || st.which == mDeleteOutput)
	st.run(ctx)
	verifAssert("output log stays contiguous, strictly increasing, time-ordered", logInv(ctx, k, b))
	verifReach("inv step")
}

// every message other than propose/delete leaves every output and every output counter as it was
func Harness_C11_OutputsFrame() {
	boundStores(1, 1)
	verifConfig("maxlen:RegistrationFee", 1)
	k, ms, ctx := setup()
	b, i := verifSymU64("obsBridge"), verifSymU64("obsIndex")
	out, err := k.GetOutputProposal(ctx, b, i)
	next := k.nextOut(ctx, b)
	st := newStep(ms)
	verifAssume(st.which != mProposeOutput && st.which != mDeleteOutput)
	st.run(ctx)
	out2, err2 := k.GetOutputProposal(ctx, b, i)
	verifAssert("outputs are written only by proposals and deletions", (err == nil) == (err2 == nil) && sameOutput(out, out2))
	verifAssert("output counters are written only by proposals and deletions", k.nextOut(ctx, b) == next)
}

// C11 Delete step: deleting index i removes exactly the suffix [i, next) and makes i the next index.
func Harness_C11_DeleteStep() {
	c11Bounds()
	k, ms, ctx := setup()
	req := &types.MsgDeleteOutput{Challenger: verifSymStr("req.challenger"), BridgeId: verifSymU64("req.bridge"), OutputIndex: verifSymU64("req.outputIndex")}
	b := req.BridgeId
	verifAssume(logInv(ctx, k, b))
	cfg, cerr := k.GetBridgeConfig(ctx, b)
	pre := outputsOf(ctx, k, b)
	next := k.nextOut(ctx, b)
	b2 := verifSymU64("otherBridge")
	verifAssume(b2 != b)
	pre2, next2 := outputsOf(ctx, k, b2), k.nextOut(ctx, b2)
	// the module's own finality verdict (the one withdrawals are finalized against) on every stored output, before
	usable := make([]bool, len(pre))
	for j, r := range pre {
		f, ferr := k.IsFinalized(ctx, b, r.idx)
		usable[j] = ferr == nil && f
	}

	err, pan := runMsg(ctx, func(c sdk.Context) error { _, e := ms.DeleteOutput(c, req); return e })
	verifAssert("DeleteOutput does not panic", !pan)
	post := outputsOf(ctx, k, b)
	if !ok(err, pan) {
		verifAssert("a rejected deletion removes nothing", len(post) == len(pre) && k.nextOut(ctx, b) == next)
		return
	}
	verifReach("deletion accepted")
	verifAssert("bridge exists", cerr == nil)
	verifAssert("deleter is governance, proposer or challenger", req.Challenger == k.authority || req.Challenger == cfg.Proposer || req.Challenger == cfg.Challenger)
	i := req.OutputIndex
	verifAssert("index within the log", i >= 1 && i < next)
	verifAssert("deleted index becomes the next index", k.nextOut(ctx, b) == i)
	verifAssert("exactly the suffix [i, next) is removed", uint64(len(post)) == i-1)
	for j, r := range post {
		verifAssert("outputs below i are untouched", r.idx == pre[j].idx && sameOutput(r.out, pre[j].out))
	}
	for j, r := range pre {
		if r.idx >= i {
			verifAssert("no removed output was final (one-second granularity)", !refFinalStrict(ctx.BlockTime(), r.out.L1BlockTime, cfg.FinalizationPeriod))
			verifAssert("no removed output was one withdrawals could already be finalized against", !usable[j])
		}
	}
	post2 := outputsOf(ctx, k, b2)
	verifAssert("other bridge untouched", len(post2) == len(pre2) && k.nextOut(ctx, b2) == next2)
}
