//go:build verif

package keeper

import (
	"encoding/hex"
	"strconv"

	sdk "github.com/cosmos/cosmos-sdk/types"

	"github.com/initia-labs/OPinit/x/ophost/types"
)

func symDeposit() *types.MsgInitiateTokenDeposit {
	return &types.MsgInitiateTokenDeposit{
		Sender:   verifSymStr("req.sender"),
		BridgeId: verifSymU64("req.bridge"),
		To:       verifSymStr("req.to"),
		Amount:   sdk.Coin{Denom: verifSymStr("req.denom"), Amount: verifSymInt("req.amount")},
		Data:     verifOpaqueBytes("req.data"),
	}
}

// C10 step: one InitiateTokenDeposit from an arbitrary state.
func Harness_C10_Deposit() {
	k, ms, ctx := setup()
	req := symDeposit()
	b := req.BridgeId
	b2 := verifSymU64("otherBridge")
	verifAssume(b2 != b)

	exists := k.hasBridge(ctx, b)
	pre := k.nextL1(ctx, b)
	pre2 := k.nextL1(ctx, b2)
	l2ref := refL2Denom(b, req.Amount.Denom)
	prePair, hadPair := k.tokenPair(ctx, b, l2ref)
	escrow := types.BridgeAddress(b)
	sender, senderOK := k.addr(req.Sender)
	var preS, preE = k.bal(ctx, escrow, req.Amount.Denom), k.bal(ctx, escrow, req.Amount.Denom)
	if senderOK {
		preS = k.bal(ctx, sender, req.Amount.Denom)
	}
	nEv := len(eventsOf(ctx, types.EventTypeInitiateTokenDeposit))

	var res *types.MsgInitiateTokenDepositResponse
	err, pan := runMsg(ctx, func(c sdk.Context) error {
		r, e := ms.InitiateTokenDeposit(c, req)
		res = r
		return e
	})
	verifAssert("the handler does not panic", !pan)
	if !ok(err, pan) {
		verifReach("deposit rejected")
		verifAssert("rejected deposit leaves the sequence", k.nextL1(ctx, b) == pre)
		verifAssert("rejected deposit emits nothing", len(eventsOf(ctx, types.EventTypeInitiateTokenDeposit)) == nEv)
		verifAssert("rejected deposit moves nothing", k.bal(ctx, escrow, req.Amount.Denom).Equal(preE))
		return
	}
	verifReach("deposit accepted")
	verifAssert("deposits are accepted only for bridges that exist", exists)
	verifAssert("response carries the bridge's next sequence", res.Sequence == pre)
	verifAssert("the bridge's sequence advances by one", k.nextL1(ctx, b) == pre+1)
	verifAssert("another bridge's sequence is untouched", k.nextL1(ctx, b2) == pre2)
	evs := eventsOf(ctx, types.EventTypeInitiateTokenDeposit)
	verifAssert("exactly one deposit event", len(evs) == nEv+1)
	if len(evs) == nEv+1 {
		ev := evs[nEv]
		verifAssert("event: bridge id", attrIs(ev, types.AttributeKeyBridgeId, strconv.FormatUint(b, 10)))
		verifAssert("event: sequence", attrIs(ev, types.AttributeKeyL1Sequence, strconv.FormatUint(pre, 10)))
		verifAssert("event: from", attrIs(ev, types.AttributeKeyFrom, req.Sender))
		verifAssert("event: to", attrIs(ev, types.AttributeKeyTo, req.To))
		verifAssert("event: l1 denom", attrIs(ev, types.AttributeKeyL1Denom, req.Amount.Denom))
		verifAssert("event: l2 denom", attrIs(ev, types.AttributeKeyL2Denom, l2ref))
		verifAssert("event: amount", attrIs(ev, types.AttributeKeyAmount, req.Amount.Amount.String()))
		verifAssert("event: data", attrIs(ev, types.AttributeKeyData, hex.EncodeToString(req.Data)))
	}
	verifAssert("sender address was valid", senderOK)
	// funds: exactly the coin moved sender -> escrow(b)
	if senderOK && !sameAddr(sender, escrow) {
		verifAssert("escrow credited by the amount", k.bal(ctx, escrow, req.Amount.Denom).Equal(preE.Add(req.Amount.Amount)))
		verifAssert("sender debited by the amount", k.bal(ctx, sender, req.Amount.Denom).Equal(preS.Sub(req.Amount.Amount)))
	}
	// token pair
	pair, has := k.tokenPair(ctx, b, l2ref)
	verifAssert("token pair recorded under the reference l2 denom", has)
	if hadPair {
		verifAssert("an existing token pair never changes", pair == prePair)
	} else {
		verifAssert("first deposit registers l1 denom", pair == req.Amount.Denom)
	}
}

// C10 freshness: nothing is ever recorded under an id that has not been created; a newly created bridge
// therefore starts at sequence 1 with nothing pre-recorded. Also re-establishes H1 (config present ⇔ id < next).
func Harness_C10_Freshness() {
	boundStores(1, 1)
	verifConfig("maxlen:RegistrationFee", 1)
	k, ms, ctx := setup()
	x := verifSymU64("futureId")
	nextId, _ := k.GetNextBridgeId(ctx)
	verifAssume(x >= nextId)
	verifAssume(nextId < 1<<62) // bound: fewer than 2^62 bridges were ever created (the id counter does not wrap)
	l2 := verifSymStr("obsL2Denom")
	oi := verifSymU64("obsIndex")
	wh := arr32(verifSymBytes("obsClaim", 32))
	// pre-state: nothing under x
	verifAssume(!k.hasBridge(ctx, x))
	_, e1 := k.NextL1Sequences.Get(ctx, x)
	verifAssume(e1 != nil)
	_, hadPair := k.tokenPair(ctx, x, l2)
	verifAssume(!hadPair)
	_, e2 := k.GetOutputProposal(ctx, x, oi)
	verifAssume(e2 != nil)
	_, e3 := k.NextOutputIndexes.Get(ctx, x)
	verifAssume(e3 != nil)
	claimed, _ := k.HasProvenWithdrawal(ctx, x, wh)
	verifAssume(!claimed)

	st := anyStep(ms, ctx)
	nextId2, _ := k.GetNextBridgeId(ctx)
	verifAssert("bridge ids are never handed out twice", nextId2 >= nextId)
	if x >= nextId2 {
		verifAssert("no config under an id not yet created", !k.hasBridge(ctx, x))
	} else {
		verifReach("bridge x created")
		verifAssert("ids advance one at a time", st.ok() && st.which == mCreateBridge && st.created == x && nextId2 == x+1)
		verifAssert("a created bridge has a config", k.hasBridge(ctx, x))
	}
	_, f1 := k.NextL1Sequences.Get(ctx, x)
	verifAssert("a new or future bridge has no deposit sequence recorded (starts at 1)", f1 != nil && k.nextL1(ctx, x) == 1)
	_, hasPair := k.tokenPair(ctx, x, l2)
	verifAssert("a new or future bridge has no token pair", !hasPair)
	_, f2 := k.GetOutputProposal(ctx, x, oi)
	_, f3 := k.NextOutputIndexes.Get(ctx, x)
	verifAssert("a new or future bridge has no outputs", f2 != nil && f3 != nil)
	claimed2, _ := k.HasProvenWithdrawal(ctx, x, wh)
	verifAssert("a new or future bridge has no claim records", !claimed2)
}

// C10 frame: a recorded token pair never changes, whatever the message.
func Harness_C10_TokenPairFrame() {
	boundStores(1, 1)
	verifConfig("maxlen:RegistrationFee", 1)
	k, ms, ctx := setup()
	b := verifSymU64("obsBridge")
	l2 := verifSymStr("obsL2Denom")
	pre, had := k.tokenPair(ctx, b, l2)
	verifAssume(had)
	st := anyStep(ms, ctx)
	_ = st
	post, has := k.tokenPair(ctx, b, l2)
	verifAssert("a registered token pair is never removed or changed", has && post == pre)
}
