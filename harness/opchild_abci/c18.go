//go:build verif

package opchild

import (
	sdk "github.com/cosmos/cosmos-sdk/types"

	"github.com/initia-labs/OPinit/x/opchild/keeper"
	"github.com/initia-labs/OPinit/x/opchild/types"
)

// C18: the block hooks executed twice from the same state (independent map orders / clocks) agree on the
// validator updates (in order), errors, events and state. A plan may or may not be registered at this height.
func Harness_C18_L2_EndBlocker() {
	k, ctx := keeper.VerifSetupC13()
	keeper.VerifConfig("maporder", 1)
	keeper.VerifAssume(keeper.VerifInvValidators(ctx, k))
	if keeper.VerifChoice("plan.present", 2) == 1 {
		hp := keeper.VerifSymU64("plan.height")
		nExec := keeper.VerifSymLen("plan.nexec", 0, 2)
		execs := make([]string, nExec)
		for i := range execs {
			execs[i] = keeper.VerifSymStr("plan.executor")
		}
		next := keeper.VerifPlanValidator("plan.validator")
		k.ExecutorChangePlans[hp] = types.ExecutorChangePlan{ProposalID: 1, Height: hp, NextExecutors: execs, NextValidator: next, Info: "plan"}
	}
	keeper.VerifTwice18(ctx, func(c sdk.Context) (any, error) { return EndBlocker(c, k) })
}

func Harness_C18_L2_BeginBlocker() {
	k, ctx := keeper.VerifSetupC13()
	keeper.VerifConfig("maporder", 1)
	keeper.VerifConfig("store:HistoricalInfos", 1)
	keeper.VerifConfig("len:Valset", 0)
	keeper.VerifAssume(keeper.VerifInvValidators(ctx, k))
	keeper.VerifTwice18(ctx, func(c sdk.Context) (any, error) { return nil, BeginBlocker(c, k) })
}
