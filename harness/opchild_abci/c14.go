//go:build verif

package opchild

import (
	"github.com/initia-labs/OPinit/x/opchild/keeper"
	"github.com/initia-labs/OPinit/x/opchild/types"
)

// C14 step: EndBlocker at height h from an arbitrary end-of-block-ready validator state, with one registered
// executor-change plan at height hp (operator and key may be new or already known; any executor list).
func Harness_C14_PlanAtEndBlock() {
	keeper.VerifConfig("unwind", 16) // the reference applier's nested loops over 3 stored validators plus the plan (thorough)
	k, ctx := keeper.VerifSetupC13()
	keeper.VerifAssume(keeper.VerifInvValidators(ctx, k))
	ghost, gok := keeper.VerifGhostOf(ctx, k)
	keeper.VerifAssume(gok)
	h := uint64(ctx.BlockHeight())
	hp := keeper.VerifSymU64("plan.height")
	nExec := keeper.VerifSymLen("plan.nexec", 0, 2)
	execs := make([]string, nExec)
	for i := range execs {
		execs[i] = keeper.VerifSymStr("plan.executor")
		keeper.VerifAssume(keeper.VerifValidAccount(k, execs[i])) // registration refuses undecodable addresses
	}
	next := keeper.VerifPlanValidator("plan.validator")
	keeper.VerifAssume(keeper.VerifValidOperator(k, next.OperatorAddress))
	k.ExecutorChangePlans[hp] = types.ExecutorChangePlan{ProposalID: 1, Height: hp, NextExecutors: execs, NextValidator: next, Info: "plan"}
	p0, _ := k.GetParams(ctx)
	opKnown := keeper.VerifHasOperator(ctx, k, next.OperatorAddress)
	keyKnown := keeper.VerifHasKey(ctx, k, next)
	full := keeper.VerifCount(ctx, k) >= int(p0.MaxValidators)
	same := keeper.VerifSameRecord(ctx, k, next) // the plan re-appoints a stored validator unchanged

	ups, err := EndBlocker(ctx, k)

	if h != hp {
		keeper.VerifReach("no plan at this height")
		p1, _ := k.GetParams(ctx)
		keeper.VerifAssert("executors unchanged at any other height", sameStrings(p0.BridgeExecutors, p1.BridgeExecutors))
		if err == nil {
			g2, accepted := keeper.VerifRefApply(ghost, ups)
			bonded, _ := keeper.VerifBonded(ctx, k)
			keeper.VerifAssert("without a plan the step is a plain end-block", accepted && keeper.VerifSameSet(g2, bonded))
		}
		return
	}
	keeper.VerifReach("plan height")
	// the three recorded defects of the plan mechanism are regions of their own
	if keeper.VerifKnown("C14-a", opKnown && !keyKnown) || keeper.VerifKnown("C14-b", keyKnown && !opKnown) ||
		keeper.VerifKnown("C14-c", full && !opKnown) || keeper.VerifKnown("C14-d", opKnown && keyKnown && !same) {
		keeper.VerifReach("known-finding region")
	}
	keeper.VerifAssert("block processing does not fail because of the plan", err == nil)
	if err != nil {
		return
	}
	g2, accepted := keeper.VerifRefApply(ghost, ups)
	keeper.VerifAssert("the plan's batch is one the consensus engine accepts", accepted)
	if !accepted {
		return
	}
	keeper.VerifAssert("consensus ends up with exactly the plan's validator", keeper.VerifSameSet(g2, keeper.VerifOne(next)))
	bonded, zero := keeper.VerifBonded(ctx, k)
	keeper.VerifAssert("state agrees: the plan's validator is the only bonded validator", keeper.VerifSameSet(bonded, keeper.VerifOne(next)))
	keeper.VerifAssert("replaced validators are gone from state", zero == 0)
	p1, _ := k.GetParams(ctx)
	keeper.VerifAssert("bridge executors become exactly the plan's list", sameStrings(p1.BridgeExecutors, execs))
	g3, gok3 := keeper.VerifGhostOf(ctx, k)
	keeper.VerifAssert("last powers agree with consensus", gok3 && keeper.VerifSameSet(g2, g3))
}

func sameStrings(a, b []string) bool {
	if len(a) != len(b) {
		return false
	}
	for i := range a {
		if a[i] != b[i] {
			return false
		}
	}
	return true
}

// C14 registration: malformed plans are refused without side effects; a good plan adds exactly one entry.
func Harness_C14_Register() {
	k, _ := keeper.VerifSetupC13()
	id, height := keeper.VerifSymU64("plan.id"), keeper.VerifSymU64("plan.height")
	op, mon, pkjson, info := keeper.VerifSymStr("plan.operator"), keeper.VerifSymStr("plan.moniker"), keeper.VerifSymStr("plan.pubkeyJSON"), keeper.VerifSymStr("plan.info")
	n := keeper.VerifSymLen("plan.nexec", 0, 2)
	execs := make([]string, n)
	for i := range execs {
		execs[i] = keeper.VerifSymStr("plan.executor")
	}
	other := keeper.VerifSymU64("other.height")
	pre := keeper.VerifChoice("other.registered", 2) == 1
	if pre {
		k.ExecutorChangePlans[other] = types.ExecutorChangePlan{ProposalID: 7, Height: other}
	}
	n0 := len(k.ExecutorChangePlans)
	err := k.RegisterExecutorChangePlan(id, height, op, mon, pkjson, info, execs)
	if err != nil {
		keeper.VerifReach("plan refused")
		keeper.VerifAssert("a refused plan has no side effects", len(k.ExecutorChangePlans) == n0)
		return
	}
	keeper.VerifReach("plan registered")
	keeper.VerifAssert("zero proposal id is refused", id != 0)
	keeper.VerifAssert("zero height is refused", height != 0)
	keeper.VerifAssert("a height already used is refused", !(pre && other == height))
	keeper.VerifAssert("undecodable operator address is refused", keeper.VerifValidOperator(k, op))
	for _, e := range execs {
		keeper.VerifAssert("undecodable executor address is refused", keeper.VerifValidAccount(k, e))
	}
	keeper.VerifAssert("exactly one plan is added", len(k.ExecutorChangePlans) == n0+1)
	p, found := k.ExecutorChangePlans[height]
	keeper.VerifAssert("the plan is stored under its height", found && p.Height == height && p.ProposalID == id && sameStrings(p.NextExecutors, execs) && p.NextValidator.OperatorAddress != "")
}
