//go:build verif

package lanes

import "cosmossdk.io/core/address"

// wrapper so that the engine (symbolically) and the replay runtime (natively) can hand out an account address codec
type addrCodec struct{ Codec address.Codec }
