//go:build verif

package lanes

import (
	"context"

	codectypes "github.com/cosmos/cosmos-sdk/codec/types"
	sdk "github.com/cosmos/cosmos-sdk/types"
	"github.com/cosmos/cosmos-sdk/x/authz"
	protov2 "google.golang.org/protobuf/proto"

	"github.com/initia-labs/OPinit/x/opchild/types"
)

type symTx struct {
	payer   []byte
	granter []byte
	msgs    []sdk.Msg
}

func (t symTx) GetMsgs() []sdk.Msg                    { return t.msgs }
func (t symTx) GetMsgsV2() ([]protov2.Message, error) { return nil, nil }
func (t symTx) GetGas() uint64                        { return 0 }
func (t symTx) GetFee() sdk.Coins                     { return nil }
func (t symTx) FeePayer() []byte                      { return t.payer }
func (t symTx) FeeGranter() []byte                    { return t.granter }

const (
	kOracle = iota
	kExec
	kOther
)

func mustAny(m sdk.Msg) *codectypes.Any {
	a, err := codectypes.NewAnyWithValue(m)
	if err != nil {
		panic(err)
	}
	return a
}

func symLeaf(name string) (sdk.Msg, bool) {
	if verifChoice(name+".isOracle", 2) == 1 {
		return &types.MsgUpdateOracle{Sender: verifSymStr(name + ".sender"), Height: verifSymU64(name + ".height")}, true
	}
	return &types.MsgInitiateTokenWithdrawal{Sender: verifSymStr(name + ".sender")}, false
}

// C20: a transaction is a system transaction only if it is exactly one oracle update, possibly wrapped once in a
// single-message authz execution.
func Harness_C20_SystemLane() {
	n := verifSymLen("tx.nmsgs", 0, 3)
	msgs := make([]sdk.Msg, n)
	want := false
	for i := range msgs {
		switch verifChoice("msg.kind", 3) {
		case kOracle:
			msgs[i] = &types.MsgUpdateOracle{Sender: verifSymStr("msg.sender"), Height: verifSymU64("msg.height")}
			if n == 1 {
				want = true
			}
		case kExec:
			k := verifSymLen("exec.n", 0, 2)
			inner := make([]*codectypes.Any, k)
			allOracle := true
			for j := range inner {
				// nesting level 2: an exec inside an exec is "other"
				if verifChoice("inner.isExec", 2) == 1 {
					in2, _ := symLeaf("inner2")
					inner[j] = mustAny(&authz.MsgExec{Grantee: verifSymStr("inner.grantee"), Msgs: []*codectypes.Any{mustAny(in2)}})
					allOracle = false
					continue
				}
				m, isO := symLeaf("inner")
				inner[j] = mustAny(m)
				if !isO {
					allOracle = false
				}
			}
			msgs[i] = &authz.MsgExec{Grantee: verifSymStr("exec.grantee"), Msgs: inner}
			if n == 1 && k == 1 && allOracle {
				want = true
			}
		default:
			msgs[i] = &types.MsgInitiateTokenWithdrawal{Sender: verifSymStr("msg.sender")}
		}
	}
	ctx := verifSym[sdk.Context]("ctx")
	got := SystemLaneMatchHandler()(ctx, symTx{msgs: msgs})
	verifAssert("system lane matches exactly one oracle update, optionally inside a single-message exec", got == want)
	if got {
		verifReach("system")
	} else {
		verifReach("not system")
	}
}

type symWhitelist struct{ list []string }

func (w symWhitelist) FeeWhitelist(ctx context.Context) ([]string, error) { return w.list, nil }

// C20: fee exemption only if the fee payer or the fee granter is on the on-chain whitelist.
func Harness_C20_FreeLane() {
	ac := verifSym[addrCodec]("ac").Codec
	n := verifSymLen("whitelist.n", 0, 2)
	list := make([]string, n)
	for i := range list {
		list[i] = verifSymStr("whitelist.addr")
		_, err := ac.StringToBytes(list[i])
		verifAssume(err == nil) // Params.Validate admits only valid addresses to the whitelist
	}
	payer := verifOpaqueBytes("payer")
	var granter []byte
	if verifChoice("hasGranter", 2) == 1 {
		granter = verifOpaqueBytes("granter")
	}
	ctx := verifSym[sdk.Context]("ctx")
	got := NewFreeLaneMatchHandler(ac, symWhitelist{list}).MatchHandler()(ctx, symTx{payer: payer, granter: granter})
	payerStr, perr := ac.BytesToString(payer)
	granterStr := ""
	if granter != nil {
		granterStr, _ = ac.BytesToString(granter)
	}
	listed := false
	for _, a := range list {
		if perr == nil && (a == payerStr || (granter != nil && a == granterStr)) {
			listed = true
		}
	}
	if got {
		verifReach("free")
		verifAssert("fee-exempt only if payer or granter is whitelisted", listed)
	} else {
		verifReach("not free")
		verifAssert("a whitelisted payer or granter is fee-exempt", !listed)
	}
}
