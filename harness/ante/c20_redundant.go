//go:build verif

package ante

import (
	"errors"

	sdk "github.com/cosmos/cosmos-sdk/types"

	"github.com/initia-labs/OPinit/x/opchild/keeper"
	"github.com/initia-labs/OPinit/x/opchild/types"
)

// C20: redundant-relay filtering at check time.
func Harness_C20_RedundantRelay() {
	k, ctx0 := keeper.VerifSetupMin()
	check, recheck, simulate := verifSymBool("isCheckTx"), verifSymBool("isReCheckTx"), verifSymBool("simulate")
	ctx := ctx0.WithIsCheckTx(check)
	if recheck {
		ctx = ctx.WithIsReCheckTx(true)
	}
	inCheck := (check || recheck) && !simulate
	next := keeper.VerifNextL1(ctx, k)
	verifAssume(next < 1<<62)
	n := verifSymLen("tx.nmsgs", 0, 2)
	msgs := make([]sdk.Msg, n)
	deposits, staleOK, freshOK, clean := 0, 0, 0, true
	for i := range msgs {
		if verifChoice("msg.isDeposit", 2) == 1 {
			d := keeper.VerifSymDeposit("dep")
			msgs[i] = d
			deposits++
			good := keeper.VerifValidDeposit(k, d) && keeper.VerifIsExecutor(ctx, k, d.Sender)
			switch {
			case good && d.Sequence < next:
				staleOK++
			case good && d.Sequence == next && freshOK == 0:
				freshOK++
			default:
				clean = false // invalid, unauthorised, ahead of sequence, or a second fresh one: handler-dependent
			}
		} else {
			msgs[i] = &types.MsgInitiateTokenWithdrawal{Sender: verifSymStr("other.sender")}
		}
	}
	passed := false
	nextFn := func(c sdk.Context, tx sdk.Tx, sim bool) (sdk.Context, error) { passed = true; return c, nil }
	_, err := NewRedundantBridgeDecorator(k).AnteHandle(ctx, symTx{msgs: msgs}, simulate, nextFn)
	redundant := err != nil && errors.Is(err, types.ErrRedundantTx)
	if !inCheck {
		verifAssert("outside checking every transaction passes the filter", passed && err == nil)
		return
	}
	if deposits == 0 {
		verifAssert("transactions without deposit finalizations pass", passed && err == nil)
		return
	}
	if redundant {
		verifReach("redundant rejected")
		verifAssert("rejected as redundant only if every deposit message is already processed", !clean || (staleOK == deposits))
		verifAssert("a redundant transaction does not reach the next handler", !passed)
	}
	if clean && staleOK == deposits {
		verifAssert("a transaction consisting solely of already processed deposits is rejected at check time", redundant)
	}
	if clean && freshOK > 0 {
		verifReach("fresh passes")
		verifAssert("a transaction containing a fresh deposit passes", passed && err == nil)
	}
}
