//go:build verif

package ante

import (
	"context"

	"cosmossdk.io/math"
	sdk "github.com/cosmos/cosmos-sdk/types"
	protov2 "google.golang.org/protobuf/proto"
)

// a fee transaction with arbitrary content
type symTx struct {
	fee     sdk.Coins
	gas     uint64
	payer   []byte
	granter []byte
	msgs    []sdk.Msg
}

func (t symTx) GetMsgs() []sdk.Msg                    { return t.msgs }
func (t symTx) GetMsgsV2() ([]protov2.Message, error) { return nil, nil }
func (t symTx) GetGas() uint64                        { return t.gas }
func (t symTx) GetFee() sdk.Coins                     { return t.fee }
func (t symTx) FeePayer() []byte                      { return t.payer }
func (t symTx) FeeGranter() []byte                    { return t.granter }

type symAnteKeeper struct{ prices sdk.DecCoins }

func (k symAnteKeeper) MinGasPrices(ctx context.Context) (sdk.DecCoins, error) { return k.prices, nil }

// price vectors over a universe of three pairwise distinct, ordered, valid denoms
func symDenoms() [3]string {
	d := [3]string{verifSymStr("denom0"), verifSymStr("denom1"), verifSymStr("denom2")}
	for _, x := range d {
		verifAssume(sdk.ValidateDenom(x) == nil)
	}
	verifAssume(d[0] < d[1] && d[1] < d[2])
	return d
}

// a valid DecCoins (sorted, unique, positive) over a sub-set of the universe chosen by the solver
func universe() int {
	if verifThorough() {
		return 3
	}
	return 2
}

func symPrices(name string, d [3]string, maxLen int) sdk.DecCoins {
	var out sdk.DecCoins
	for i := 0; i < universe(); i++ {
		if len(out) < maxLen && verifChoice(name+".has", 2) == 1 {
			p := verifSym[math.LegacyDec](name + ".price")
			verifAssume(p.IsPositive())
			out = append(out, sdk.DecCoin{Denom: d[i], Amount: p})
		}
	}
	return out
}

func symFee(d [3]string, maxLen int) sdk.Coins {
	var out sdk.Coins
	for i := 0; i < universe(); i++ {
		if len(out) < maxLen && verifChoice("fee.has", 2) == 1 {
			a := verifSymInt("fee.amount")
			verifAssume(a.IsPositive())
			out = append(out, sdk.Coin{Denom: d[i], Amount: a})
		}
	}
	return out
}

func maxDec(a, b math.LegacyDec) math.LegacyDec {
	if a.LT(b) {
		return b
	}
	return a
}

func bounds() int {
	if verifThorough() {
		return 3
	}
	return 2
}

// C20: the combined floor is the pointwise maximum of the node's and the chain's minimum gas prices.
func Harness_C20_CombinedIsPointwiseMax() {
	d := symDenoms()
	node, chain := symPrices("node", d, bounds()), symPrices("chain", d, bounds())
	got := CombinedMinGasPrices(node, chain)
	for i := 0; i < 3; i++ {
		verifAssert("combined floor is the larger of the two prices", got.AmountOf(d[i]).Equal(maxDec(node.AmountOf(d[i]), chain.AmountOf(d[i]))))
	}
	verifAssert("combined floor is a valid, sorted price vector", got.Validate() == nil)
	verifReach("combined")
}

// C20: admission by fee during transaction checking.
func Harness_C20_FeeFloor() {
	d := symDenoms()
	node, chain := symPrices("node", d, bounds()), symPrices("chain", d, bounds())
	fee := symFee(d, bounds())
	gas := verifSymU64("gas")
	check, recheck := verifSymBool("isCheckTx"), verifSymBool("isReCheckTx")
	ctx := verifSym[sdk.Context]("ctx").WithIsCheckTx(check).WithMinGasPrices(node)
	verifAssume(!(check && recheck)) // WithIsReCheckTx(true) sets the check flag as well: one context, explored once
	if recheck {
		ctx = ctx.WithIsReCheckTx(true) // a mempool re-check after a block is transaction checking too (the SDK sets both flags)
	}
	check = check || recheck
	tx := symTx{fee: fee, gas: gas}
	_, _, err := NewMempoolFeeChecker(symAnteKeeper{chain}).CheckTxFeeWithMinGasPrices(ctx, tx)
	if !check {
		verifAssert("nothing is enforced outside transaction checking", err == nil)
		return
	}
	allZero := len(node) == 0 && len(chain) == 0
	if allZero {
		verifAssert("any fee passes when all floors are zero", err == nil)
		return
	}
	// reference: some denom with a positive floor whose fee covers ceil(max(node, chain) x gas)
	covered := false
	for i := 0; i < 3; i++ {
		floor := maxDec(node.AmountOf(d[i]), chain.AmountOf(d[i]))
		if floor.IsPositive() {
			need := floor.MulInt(math.NewIntFromUint64(gas)).Ceil().RoundInt()
			if need.IsPositive() && fee.AmountOf(d[i]).GTE(need) {
				covered = true
			}
		}
	}
	if err == nil {
		verifReach("admitted")
		verifAssert("admitted only if some denom's fee covers gas x the larger floor, rounded up", covered)
	} else {
		verifReach("rejected")
		verifAssert("a transaction whose fee covers the floor in some denom is admitted", !covered)
	}
}

// C20 rounding: with the floor price taken from a finite grid (so that price x gas is linear in the symbolic gas)
// the solver decides the exact rounding: admitted iff fee >= ceil(price x gas), for every 64-bit gas — including
// products whose fractional part is below one half, exactly one half, above one half, and integral products.
func Harness_C20_FeeRounding() {
	// price = num / 10^prec
	grid := []struct{ num, prec, pow int64 }{
		{5, 4, 10000},        // 0.0005
		{25, 5, 100000},      // 0.00025
		{15, 1, 10},          // 1.5
		{333333, 6, 1000000}, // 0.333333
		{3, 0, 1},            // integral
		{1, 9, 1000000000},   // 10^-9
	}
	g := grid[verifChoice("price", len(grid))]
	price := math.LegacyNewDecWithPrec(g.num, g.prec)
	d := verifSymStr("denom")
	verifAssume(sdk.ValidateDenom(d) == nil)
	fromNode := verifSymBool("priceFromNodeConfig")
	var node, chain sdk.DecCoins
	if fromNode {
		node = sdk.DecCoins{{Denom: d, Amount: price}}
	} else {
		chain = sdk.DecCoins{{Denom: d, Amount: price}}
	}
	gas := verifSymQtyU64("gas") // every 64-bit gas, as an integer quantity: keeps price x gas in linear integer arithmetic
	amt := verifSymInt("fee.amount")
	verifAssume(amt.IsPositive())
	fee := sdk.Coins{{Denom: d, Amount: amt}}
	ctx := verifSym[sdk.Context]("ctx").WithIsCheckTx(true).WithMinGasPrices(node)
	_, _, err := NewMempoolFeeChecker(symAnteKeeper{chain}).CheckTxFeeWithMinGasPrices(ctx, symTx{fee: fee, gas: gas})
	// reference in integers: need = ceil(num x gas / 10^prec)
	need := math.NewInt(g.num).Mul(math.NewIntFromUint64(gas)).AddRaw(g.pow - 1).QuoRaw(g.pow)
	if err == nil {
		verifReach("admitted")
		verifAssert("admitted only if the fee covers gas x price rounded up", need.IsZero() || amt.GTE(need))
	} else {
		verifReach("rejected")
		// (a zero requirement — gas 0 — is never "met": such a transaction is refused whatever its fee; stricter than
		// the property, which only limits what may be admitted)
		verifAssert("a fee that covers a positive gas x price rounded up is admitted", !(need.IsPositive() && amt.GTE(need)))
	}
}
