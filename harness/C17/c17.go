//go:build verif

package types

import (
	"bytes"
	"encoding/hex"

	"golang.org/x/crypto/sha3"
)

// ---- independent reference implementations of the published formats (specs/withdrawal_proving.md,
// specs/l2_output_oracle.md) ----

func refBE64(v uint64) []byte {
	b := make([]byte, 8)
	for i := 0; i < 8; i++ {
		b[7-i] = byte(v >> (8 * uint(i)))
	}
	return b
}

func refLeaf(bridgeId, seq uint64, sender, receiver, denom string, amount uint64) [32]byte {
	buf := make([]byte, 0, 8+8+32+32+32+8)
	buf = append(buf, refBE64(bridgeId)...)
	buf = append(buf, refBE64(seq)...)
	s := sha3.Sum256([]byte(sender))
	buf = append(buf, s[:]...)
	r := sha3.Sum256([]byte(receiver))
	buf = append(buf, r[:]...)
	d := sha3.Sum256([]byte(denom))
	buf = append(buf, d[:]...)
	buf = append(buf, refBE64(amount)...)
	h := sha3.Sum256(buf)
	return sha3.Sum256(h[:])
}

func refNode(a, b [32]byte) [32]byte {
	lo, hi := a, b
	if bytes.Compare(a[:], b[:]) > 0 {
		lo, hi = b, a
	}
	var buf [64]byte
	copy(buf[:32], lo[:])
	copy(buf[32:], hi[:])
	return sha3.Sum256(buf[:])
}

func refOutputRoot(version byte, storageRoot, blockHash [32]byte) [32]byte {
	var buf [65]byte
	buf[0] = version
	copy(buf[1:33], storageRoot[:])
	copy(buf[33:], blockHash[:])
	return sha3.Sum256(buf[:])
}

func refL2Denom(id uint64, l1 string) string {
	buf := refBE64(id)
	buf = append(buf, l1...)
	h := sha3.Sum256(buf)
	return "l2/" + hex.EncodeToString(h[:])
}

func arr32(b []byte) (a [32]byte) { copy(a[:], b); return }

// ---- harnesses ----

func Harness_C17_Leaf() {
	b, s := verifSymU64("bridge"), verifSymU64("seq")
	from, to, denom := verifSymStr("from"), verifSymStr("to"), verifSymStr("denom")
	amt := verifSymU64("amount")
	got := GenerateWithdrawalHash(b, s, from, to, denom, amt)
	want := refLeaf(b, s, from, to, denom, amt)
	verifAssert("leaf hash equals the documented format", got == want)
	verifReach("leaf")
}

func Harness_C17_Node() {
	a, b := verifSymBytes("a", 32), verifSymBytes("b", 32)
	a0, b0 := arr32(a), arr32(b)
	got := GenerateNodeHash(a, b)
	verifAssert("node hash equals sha3 of the sorted pair", got == refNode(a0, b0))
	verifAssert("node hash does not modify a", arr32(a) == a0)
	verifAssert("node hash does not modify b", arr32(b) == b0)
	// order independence, from fresh copies so that the first call cannot influence the second
	a1, b1 := a0, b0
	swapped := GenerateNodeHash(b1[:], a1[:])
	verifAssert("node hash is order independent", got == swapped)
	verifReach("node")
}

func Harness_C17_NodeEqualAdjacent() {
	a := verifSymBytes("a", 32)
	a0 := arr32(a)
	c := a0
	got := GenerateNodeHash(a, c[:])
	verifAssert("node hash of an equal pair", got == refNode(a0, a0))
	verifReach("node-equal")
}

func Harness_C17_OutputRoot() {
	v := verifSymU8("version")
	sr, bh := verifSymBytes("storageRoot", 32), verifSymBytes("blockHash", 32)
	got := GenerateOutputRoot(v, sr, bh)
	verifAssert("output root equals sha3(version|storage root|block hash)", got == refOutputRoot(v, arr32(sr), arr32(bh)))
	verifReach("outputroot")
}

func Harness_C17_L2Denom() {
	id, l1 := verifSymU64("bridge"), verifSymStr("l1denom")
	verifAssert("l2 denom equals the documented derivation", L2Denom(id, l1) == refL2Denom(id, l1))
	verifReach("l2denom")
}

func Harness_C17_BridgeAddress() {
	id := verifSymU64("bridge")
	got := BridgeAddress(id)
	want := refModuleAddress(ModuleName, refBE64(id))
	verifAssert("bridge address is the module-derived address of be64(id)", bytes.Equal(got, want))
	id2 := verifSymU64("bridge2")
	verifAssume(id2 != id)
	verifAssert("distinct ids give distinct escrow addresses (idealised derivation)", !bytes.Equal(BridgeAddress(id2), got))
	verifReach("bridgeaddr")
}

// proofs: items laid out as the harness chooses: separately allocated, or sub-slices of one buffer with
// spare capacity behind each item (cap > len), which is what a protobuf decoder or a caller slicing one
// buffer produces.
func Harness_C17_RootFromProofs() {
	depth := verifSymLen("depth", 0, 2)
	if verifThorough() {
		depth = verifSymLen("depthT", 0, 4)
	}
	leaf := arr32(verifSymBytes("leaf", 32))
	layout := verifChoice("layout", 3) // 0 separate, 1 one buffer contiguous, 2 one buffer, items capped to len
	vals := make([][32]byte, depth)
	for i := 0; i < depth; i++ {
		vals[i] = arr32(verifSymBytes("p", 32))
	}
	proofs := make([][]byte, depth)
	var buf []byte
	switch layout {
	case 0:
		for i := range proofs {
			p := vals[i]
			proofs[i] = p[:]
		}
	default:
		buf = make([]byte, 32*depth)
		for i := range proofs {
			copy(buf[32*i:], vals[i][:])
		}
		for i := range proofs {
			if layout == 1 {
				proofs[i] = buf[32*i : 32*i+32] // capacity extends over the following items
			} else {
				proofs[i] = buf[32*i : 32*i+32 : 32*i+32]
			}
		}
	}
	got := GenerateRootHashFromProofs(leaf, proofs)
	want := leaf
	for i := 0; i < depth; i++ {
		want = refNode(want, vals[i])
	}
	verifAssert("root from proofs equals the reference fold, whatever the memory layout", got == want)
	for i := 0; i < depth; i++ {
		verifAssert("proof bytes unchanged", arr32(proofs[i]) == vals[i])
	}
	verifReach("rootfromproofs")
}
