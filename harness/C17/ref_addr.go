//go:build verif

package types

import "github.com/cosmos/cosmos-sdk/types/address"

// reference: the documented derivation is the SDK's module-address scheme over ("ophost", be64(id))
func refModuleAddress(name string, seed []byte) []byte { return address.Module(name, seed) }
