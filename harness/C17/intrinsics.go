//go:build verif && !verifnative

package types

// Intrinsics intercepted by the symbolic engine (bodyless on purpose); the native replay build provides
// bodies that read the solver's model instead.

func verifSymU64(name string) uint64
func verifSymU8(name string) uint8
func verifSymBool(name string) bool
func verifSymStr(name string) string
func verifSymBytes(name string, n int) []byte
func verifSymBytesCap(name string, n, capacity int) []byte
func verifSymLen(name string, lo, hi int) int
func verifChoice(name string, n int) int
func verifAssume(c bool)
func verifAssert(label string, c bool)
func verifReach(label string)
func verifThorough() bool
func verifConfig(key string, val int)
func verifIdealHash()
func verifNote(label string, v any)

func verifSymQtyU64(name string) uint64 { panic("verif intrinsic") }
