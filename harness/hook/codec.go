//go:build verif

package hook

import "cosmossdk.io/core/address"

type addrCodec struct{ Codec address.Codec }
