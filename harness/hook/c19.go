//go:build verif

package hook

import (
	"bytes"
	"context"
	"errors"

	sdk "github.com/cosmos/cosmos-sdk/types"

	ophosttypes "github.com/initia-labs/OPinit/x/ophost/types"
)

// exact table models of the IBC channel keeper and the permission keeper over a few channels
type chanState struct {
	port, channel string
	exists        bool
	nextSend      uint64
	admin         []byte // nil: no admin yet
}

type tables struct {
	chans     []*chanState
	setCalls  int
	failSet   bool
}

func (t *tables) find(port, channel string) *chanState {
	for _, c := range t.chans {
		if c.port == port && c.channel == channel {
			return c
		}
	}
	return nil
}

type symChannelKeeper struct{ t *tables }

func (k symChannelKeeper) GetNextSequenceSend(ctx sdk.Context, portID, channelID string) (uint64, bool) {
	c := k.t.find(portID, channelID)
	if c == nil || !c.exists {
		return 0, false
	}
	return c.nextSend, true
}

type symPermKeeper struct{ t *tables }

func (k symPermKeeper) IsTaken(ctx context.Context, portID, channelID string) (bool, error) {
	c := k.t.find(portID, channelID)
	return c != nil && c.admin != nil, nil
}

func (k symPermKeeper) SetAdmin(ctx context.Context, portID, channelID string, admin sdk.AccAddress) error {
	k.t.setCalls++
	if k.t.failSet {
		return errors.New("permission keeper failure")
	}
	c := k.t.find(portID, channelID)
	if c == nil {
		c = &chanState{port: portID, channel: channelID}
		k.t.chans = append(k.t.chans, c)
	}
	c.admin = admin
	return nil
}

func (k symPermKeeper) HasAdminPermission(ctx context.Context, portID, channelID string, admin sdk.AccAddress) (bool, error) {
	c := k.t.find(portID, channelID)
	return c != nil && c.admin != nil && bytes.Equal(c.admin, admin), nil
}

func symTables(n int) *tables {
	t := &tables{failSet: verifSymBool("perm.setAdminFails")}
	for i := 0; i < n; i++ {
		c := &chanState{port: verifSymStr("chan.port"), channel: verifSymStr("chan.id"), exists: verifSymBool("chan.exists"), nextSend: verifSymU64("chan.nextSend")}
		if verifChoice("chan.hasAdmin", 2) == 1 {
			c.admin = verifOpaqueBytes("chan.admin")
		}
		for _, o := range t.chans {
			verifAssume(!(o.port == c.port && o.channel == c.channel))
		}
		t.chans = append(t.chans, c)
	}
	return t
}

type snap struct {
	admin  []byte
	exists bool
}

func snapshot(t *tables) []snap {
	out := make([]snap, len(t.chans))
	for i, c := range t.chans {
		out[i] = snap{c.admin, c.exists}
	}
	return out
}

const (
	opCreated = iota
	opMetadataUpdated
	opChallengerUpdated
)

// C19: the three hook entry points on arbitrary metadata and arbitrary channel / permission tables.
func Harness_C19_ChannelAdmin() {
	ac := verifSym[addrCodec]("ac").Codec
	nch := 2
	if verifThorough() {
		nch = 3
	}
	t := symTables(nch)
	h := NewBridgeHook(symChannelKeeper{t}, symPermKeeper{t}, ac)
	cfg := ophosttypes.BridgeConfig{Challenger: verifSymStr("cfg.challenger"), Proposer: verifSymStr("cfg.proposer"), Metadata: verifOpaqueBytes("cfg.metadata")}
	ctx := verifSym[sdk.Context]("ctx")
	has, meta := hasPermChannels(cfg.Metadata)
	challenger, cerr := ac.StringToBytes(cfg.Challenger)
	pre := snapshot(t)
	npre := len(t.chans)
	op := verifChoice("hook.op", 3)
	var err error
	switch op {
	case opCreated:
		err = h.BridgeCreated(ctx, verifSymU64("bridge"), cfg)
	case opMetadataUpdated:
		err = h.BridgeMetadataUpdated(ctx, verifSymU64("bridge"), cfg)
	default:
		err = h.BridgeChallengerUpdated(ctx, verifSymU64("bridge"), cfg)
	}
	if !has {
		verifReach("no perm channels")
		verifAssert("metadata without the documented structure never touches channel permissions", err == nil && t.setCalls == 0)
		return
	}
	listed := func(c *chanState) bool {
		for _, pc := range meta.PermChannels {
			if pc.PortID == c.port && pc.ChannelID == c.channel {
				return true
			}
		}
		return false
	}
	// channels that are not listed never change, whatever happens
	for i := 0; i < npre; i++ {
		if !listed(t.chans[i]) {
			verifAssert("channels not listed in the metadata are never touched", bytes.Equal(t.chans[i].admin, pre[i].admin) && (t.chans[i].admin == nil) == (pre[i].admin == nil))
		}
	}
	if err != nil {
		verifReach("hook failed")
		return
	}
	verifReach("hook succeeded")
	if len(meta.PermChannels) > 0 {
		verifAssert("challenger address valid", cerr == nil)
	}
	for _, pc := range meta.PermChannels {
		c := t.find(pc.PortID, pc.ChannelID)
		verifAssert("after success the challenger administers every listed channel", c != nil && c.admin != nil && bytes.Equal(c.admin, challenger))
	}
	if op == opChallengerUpdated {
		return // a challenger change hands over listed channels unconditionally
	}
	for i := 0; i < npre; i++ {
		c := t.chans[i]
		if !listed(c) {
			continue
		}
		already := pre[i].admin != nil && bytes.Equal(pre[i].admin, challenger)
		if op == opMetadataUpdated && already {
			continue
		}
		verifAssert("admin granted only on an existing channel", pre[i].exists)
		verifAssert("admin granted only on a channel that never sent a packet", c.nextSend == 1)
		verifAssert("admin granted only on a channel without an admin", pre[i].admin == nil)
	}
	for _, pc := range meta.PermChannels {
		known := false
		for i := 0; i < npre; i++ {
			if t.chans[i].port == pc.PortID && t.chans[i].channel == pc.ChannelID {
				known = true
			}
		}
		verifAssert("a listed channel that does not exist makes the operation fail", known)
	}
}
