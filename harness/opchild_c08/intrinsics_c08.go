//go:build verif && !verifnative

package keeper

import sdk "github.com/cosmos/cosmos-sdk/types"

// verifOtherChain: a context over a second chain (the L1) with its own arbitrary state and bank
func verifOtherChain(name string) sdk.Context { panic("verif intrinsic") }
