//go:build verif

package keeper

import (
	"strconv"

	"cosmossdk.io/math"
	sdk "github.com/cosmos/cosmos-sdk/types"

	l1keeper "github.com/initia-labs/OPinit/x/ophost/keeper"
	ophosttypes "github.com/initia-labs/OPinit/x/ophost/types"

	"github.com/initia-labs/OPinit/x/opchild/types"
)

// C08: end-to-end solvency as one inductive step over BOTH chains. The joint state is (L1 chain with the ophost
// module and its bank, L2 chain with the opchild module and its bank); the invariant for a bridged denom d of
// bridge b is   J:  escrow_L1(b, d) = supply_L2(L2Denom(b, d)) + inFlight,  inFlight >= 0   (deposits emitted but
// not yet finalized plus withdrawals recorded but not yet paid), with the denom mapping on L2 agreeing with the
// derivation (DenomPairs[L2Denom(b,d)] is absent or d). Each harness executes one full relay round trip with the
// real handlers of both modules — the executor is harness code copying the emitted event fields — and shows J
// again afterwards.

func c08Setup() (k *Keeper, ms *MsgServer, ctx sdk.Context, lk l1keeper.Keeper, lms l1keeper.MsgServer, l1 sdk.Context, b uint64) {
	paramsBounds()
	verifConfig("len:BridgeExecutors", 1)
	verifConfig("maxlen:RegistrationFee", 0)
	k, ms, ctx = setup()
	l1 = verifOtherChain("l1")
	lk, lms = l1keeper.VerifL1Setup(l1)
	info, err := k.BridgeInfo.Get(ctx)
	verifAssume(err == nil)
	b = info.BridgeId
	verifAssume(l1keeper.VerifL1HasBridge(lk, l1, b))
	l1keeper.VerifL1AssumeBridge(lk, l1, b)
	return
}

// Deposit round trip: L1 InitiateTokenDeposit, faithful relay, L2 FinalizeTokenDeposit.
func Harness_C08_DepositRoundTrip() {
	k, ms, ctx, lk, lms, l1, b := c08Setup()
	dep := &ophosttypes.MsgInitiateTokenDeposit{Sender: verifSymStr("dep.sender"), BridgeId: b, To: verifSymStr("dep.to"),
		Amount: sdk.Coin{Denom: verifSymStr("dep.denom"), Amount: verifSymInt("dep.amount")}}
	d, A := dep.Amount.Denom, dep.Amount.Amount
	l2d := l1keeper.VerifRefL2Denom(b, d)
	verifAssume(sdk.ValidateDenom(l2d) == nil) // "l2/" + 64 hex digits always is a valid denom
	escrowAddr := ophosttypes.BridgeAddress(b)
	escrow0 := l1keeper.VerifL1Bal(lk, l1, escrowAddr, d)
	sup0 := k.sup(ctx, l2d)
	inFlight := verifSymInt("inFlight")
	verifNote("escrow / L2 supply / in flight", []math.Int{escrow0, sup0, inFlight})
	verifAssume(!inFlight.IsNegative() && escrow0.Equal(sup0.Add(inFlight))) // J
	pair0, pairErr0 := k.DenomPairs.Get(ctx, l2d)
	verifAssume(pairErr0 != nil || pair0 == d) // the mapping agrees with the derivation
	seq := l1keeper.VerifL1NextSeq(lk, l1, b)
	verifAssume(seq < 1<<62 && k.nextL1(ctx) == seq && k.nextL2(ctx) < 1<<62) // in-order relay: this deposit is the next one L2 expects
	nEv := len(l1keeper.VerifL1Events(l1, ophosttypes.EventTypeInitiateTokenDeposit))

	err1, pan1 := l1keeper.VerifL1RunMsg(l1, func(c sdk.Context) error { _, e := lms.InitiateTokenDeposit(c, dep); return e })
	if !ok(err1, pan1) {
		return
	}
	verifReach("deposit accepted on L1")
	evs := l1keeper.VerifL1Events(l1, ophosttypes.EventTypeInitiateTokenDeposit)
	verifAssert("L1 announces the deposit", len(evs) == nEv+1)
	if len(evs) != nEv+1 {
		return
	}
	ev := evs[nEv]
	// the executor relays exactly what the event says
	verifAssert("event carries what was requested", attrIs(ev, ophosttypes.AttributeKeyFrom, dep.Sender) && attrIs(ev, ophosttypes.AttributeKeyTo, dep.To) &&
		attrIs(ev, ophosttypes.AttributeKeyL1Denom, d) && attrIs(ev, ophosttypes.AttributeKeyL2Denom, l2d) &&
		attrIs(ev, ophosttypes.AttributeKeyAmount, A.String()) && attrIs(ev, ophosttypes.AttributeKeyL1Sequence, strconv.FormatUint(seq, 10)))
	escrow1 := l1keeper.VerifL1Bal(lk, l1, escrowAddr, d)
	verifAssert("the escrow holds the deposit", escrow1.Equal(escrow0.Add(A)))

	fin := &types.MsgFinalizeTokenDeposit{Sender: verifSymStr("executor"), From: dep.Sender, To: dep.To,
		Amount: sdk.Coin{Denom: l2d, Amount: A}, Sequence: seq, Height: uint64(l1.BlockHeight()), BaseDenom: d}
	verifAssume(k.isExecutor(ctx, fin.Sender))
	nW := len(eventsOf(ctx, types.EventTypeInitiateTokenWithdrawal))
	err2, pan2 := runMsg(ctx, func(c sdk.Context) error { _, e := ms.FinalizeTokenDeposit(c, fin); return e })
	verifAssert("L2 finalizes every deposit L1 emits (no stall, nothing lost)", ok(err2, pan2))
	if !ok(err2, pan2) {
		return
	}
	verifReach("deposit finalized on L2")
	sup1 := k.sup(ctx, l2d)
	refunds := eventsOf(ctx, types.EventTypeInitiateTokenWithdrawal)[nW:]
	newInFlight := inFlight
	switch len(refunds) {
	case 0:
		verifReach("credited")
		verifAssert("a credited deposit mints exactly the amount", sup1.Equal(sup0.Add(A)))
	case 1:
		verifReach("refunded")
		verifAssert("a refunded deposit mints nothing", sup1.Equal(sup0))
		w := refunds[0]
		verifAssert("the refund can be claimed from the same escrow: same amount, the L1 denom, back to the L1 sender",
			attrIs(w, types.AttributeKeyAmount, A.String()) && attrIs(w, types.AttributeKeyBaseDenom, d) &&
				attrIs(w, types.AttributeKeyTo, dep.Sender) && attrIs(w, types.AttributeKeyDenom, l2d))
		newInFlight = inFlight.Add(A)
	default:
		verifAssert("at most one refund per deposit", false)
	}
	verifAssert("J: escrow = L2 supply + in-flight value", escrow1.Equal(sup1.Add(newInFlight)))
	pair1, pairErr1 := k.DenomPairs.Get(ctx, l2d)
	verifAssert("the L2 denom maps to the L1 denom it was derived from", pairErr1 == nil && pair1 == d)
	verifAssert("and that is a valid L1 denom", sdk.ValidateDenom(pair1) == nil)
	_ = math.ZeroInt
}

// Withdrawal round trip: L2 InitiateTokenWithdrawal, an honest output over the recorded withdrawal, L1 claim.
func Harness_C08_WithdrawalRoundTrip() {
	k, ms, ctx, lk, lms, l1, b := c08Setup()
	wd := symWithdraw()
	l2d, A := wd.Amount.Denom, wd.Amount.Amount
	d, dErr := k.DenomPairs.Get(ctx, l2d)
	// the mapping agrees with the derivation and names a valid L1 denom (both kept by the deposit step)
	verifAssume(dErr != nil || (l2d == l1keeper.VerifRefL2Denom(b, d) && sdk.ValidateDenom(d) == nil))
	escrowAddr := ophosttypes.BridgeAddress(b)
	escrow0 := l1keeper.VerifL1Bal(lk, l1, escrowAddr, d)
	sup0 := k.sup(ctx, l2d)
	inFlight := verifSymInt("inFlight")
	verifAssume(!inFlight.IsNegative() && (dErr != nil || escrow0.Equal(sup0.Add(inFlight)))) // J
	l2seq := k.nextL2(ctx)
	verifAssume(l2seq < 1<<62)
	nW := len(eventsOf(ctx, types.EventTypeInitiateTokenWithdrawal))
	err1, pan1 := runMsg(ctx, func(c sdk.Context) error { _, e := ms.InitiateTokenWithdrawal(c, wd); return e })
	if !ok(err1, pan1) {
		return
	}
	verifReach("withdrawal recorded on L2")
	verifAssert("only tokens that came from L1 can be withdrawn", dErr == nil)
	if dErr != nil {
		return
	}
	evs := eventsOf(ctx, types.EventTypeInitiateTokenWithdrawal)
	verifAssert("L2 announces the withdrawal", len(evs) == nW+1)
	if len(evs) != nW+1 {
		return
	}
	ev := evs[nW]
	verifAssert("the announcement carries what was burned, the L1 denom and the sequence",
		attrIs(ev, types.AttributeKeyFrom, wd.Sender) && attrIs(ev, types.AttributeKeyTo, wd.To) && attrIs(ev, types.AttributeKeyDenom, l2d) &&
			attrIs(ev, types.AttributeKeyBaseDenom, d) && attrIs(ev, types.AttributeKeyAmount, A.String()) &&
			attrIs(ev, types.AttributeKeyL2Sequence, strconv.FormatUint(l2seq, 10)))
	sup1 := k.sup(ctx, l2d)
	verifAssert("the withdrawal burns exactly the amount", sup1.Equal(sup0.Sub(A)))
	verifAssert("J with the withdrawal in flight", escrow0.Equal(sup1.Add(inFlight.Add(A))))
	verifAssert("a recorded amount fits the 64-bit leaf", A.IsUint64())
	if !A.IsUint64() {
		return
	}
	// an honest executor commits the recorded withdrawal (single-leaf tree: the storage root is the leaf) and the
	// output becomes final; the claim carries the event's fields
	leaf := l1keeper.VerifRefLeaf(b, l2seq, wd.Sender, wd.To, d, A.Uint64())
	version := verifSymU8("out.version")
	lbh := verifSymBytes("out.lastBlockHash", 32)
	var lbhA [32]byte
	copy(lbhA[:], lbh)
	root := l1keeper.VerifRefOutputRoot(version, leaf, lbhA)
	idx := verifSymU64("out.index")
	out, oerr := lk.GetOutputProposal(l1, b, idx)
	verifAssume(oerr == nil && idx >= 1 && string(out.OutputRoot) == string(root[:])) // outputs occupy indices 1..next-1 (C11)
	fin, ferr := lk.IsFinalized(l1, b, idx)
	verifAssume(ferr == nil && fin)
	claimed, cerr := lk.HasProvenWithdrawal(l1, b, leaf)
	verifAssume(cerr == nil && !claimed)
	to, toOK := l1keeper.VerifL1Addr(lk, wd.To)
	verifAssume(toOK) // C04: a withdrawal to a string that is not an L1 address is not claimable by definition
	claim := &ophosttypes.MsgFinalizeTokenWithdrawal{Sender: verifSymStr("claim.sender"), BridgeId: b, OutputIndex: idx,
		From: wd.Sender, To: wd.To, Sequence: l2seq, Amount: sdk.Coin{Denom: d, Amount: A},
		Version: []byte{version}, StorageRoot: leaf[:], LastBlockHash: lbh}
	_, senderOK := l1keeper.VerifL1Addr(lk, claim.Sender)
	verifAssume(senderOK)
	to0 := l1keeper.VerifL1Bal(lk, l1, to, d)
	err2, pan2 := l1keeper.VerifL1RunMsg(l1, func(c sdk.Context) error { _, e := lms.FinalizeTokenWithdrawal(c, claim); return e })
	verifAssert("every recorded withdrawal is paid on L1 (the escrow is funded by J)", ok(err2, pan2))
	if !ok(err2, pan2) {
		return
	}
	verifReach("withdrawal paid on L1")
	escrow1 := l1keeper.VerifL1Bal(lk, l1, escrowAddr, d)
	if string(to) != string(escrowAddr) {
		verifAssert("the escrow pays exactly the amount", escrow1.Equal(escrow0.Sub(A)))
		verifAssert("the recipient receives exactly the amount", l1keeper.VerifL1Bal(lk, l1, to, d).Equal(to0.Add(A)))
		verifAssert("J after the claim", escrow1.Equal(sup1.Add(inFlight)))
	}
}
