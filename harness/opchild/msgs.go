//go:build verif

package keeper

import (
	codectypes "github.com/cosmos/cosmos-sdk/codec/types"
	sdk "github.com/cosmos/cosmos-sdk/types"

	"github.com/initia-labs/OPinit/x/opchild/types"
)

const (
	mExecuteMessages = iota
	mAddValidator
	mRemoveValidator
	mUpdateParams
	mSpendFeePool
	mSetBridgeInfo
	mFinalizeDeposit
	mWithdraw
	mUpdateOracle
	nMsgs
)

type step struct {
	which    int
	err      error
	pan      bool
	signer   string
	fn       func(c sdk.Context) error
	deposit  *types.MsgFinalizeTokenDeposit
	withdraw *types.MsgInitiateTokenWithdrawal
	wdSeq    uint64
	depRes   types.ResponseResultType
	addVal   *types.MsgAddValidator
	rmVal    *types.MsgRemoveValidator
	params   *types.Params
	info     *types.BridgeInfo
	spend    *types.MsgSpendFeePool
	exec     *types.MsgExecuteMessages
	resp     any // the handler's response (C18 compares two executions)
}

func (s step) ok() bool { return s.err == nil && !s.pan }

func (st *step) run(ctx sdk.Context) { st.err, st.pan = runMsg(ctx, st.fn) }

func symWithdraw() *types.MsgInitiateTokenWithdrawal {
	return &types.MsgInitiateTokenWithdrawal{Sender: verifSymStr("req.sender"), To: verifSymStr("req.to"),
		Amount: sdk.Coin{Denom: verifSymStr("req.denom"), Amount: verifSymInt("req.amount")}}
}

func symBridgeInfo(p string) types.BridgeInfo {
	return verifSym[types.BridgeInfo](p)
}

// newStep builds one arbitrary L2 message (kind chosen by the solver, all fields symbolic).
func newStep(ms *MsgServer) *step {
	st := &step{which: verifChoice("msg", nMsgs)}
	switch st.which {
	case mExecuteMessages:
		n := verifSymLen("exec.n", 1, 2)
		anys := make([]*codectypes.Any, n)
		for i := range anys {
			anys[i] = verifInnerMsg("exec.msg")
		}
		req := &types.MsgExecuteMessages{Sender: verifSymStr("req.sender"), Messages: anys}
		st.signer, st.exec = req.Sender, req
		st.fn = func(c sdk.Context) error { r, e := ms.ExecuteMessages(c, req); st.resp = r; return e }
	case mAddValidator:
		req := &types.MsgAddValidator{Moniker: verifSymStr("req.moniker"), Authority: verifSymStr("req.authority"), ValidatorAddress: verifSymStr("req.valAddr"), Pubkey: verifSym[*codectypes.Any]("req.pubkey")}
		st.signer, st.addVal = req.Authority, req
		st.fn = func(c sdk.Context) error { r, e := ms.AddValidator(c, req); st.resp = r; return e }
	case mRemoveValidator:
		req := &types.MsgRemoveValidator{Authority: verifSymStr("req.authority"), ValidatorAddress: verifSymStr("req.valAddr")}
		st.signer, st.rmVal = req.Authority, req
		st.fn = func(c sdk.Context) error { r, e := ms.RemoveValidator(c, req); st.resp = r; return e }
	case mUpdateParams:
		p := verifSym[types.Params]("req.params")
		req := &types.MsgUpdateParams{Authority: verifSymStr("req.authority"), Params: &p}
		st.signer, st.params = req.Authority, &p
		st.fn = func(c sdk.Context) error { r, e := ms.UpdateParams(c, req); st.resp = r; return e }
	case mSpendFeePool:
		req := &types.MsgSpendFeePool{Authority: verifSymStr("req.authority"), Recipient: verifSymStr("req.recipient"),
			Amount: sdk.Coins{sdk.Coin{Denom: verifSymStr("req.denom"), Amount: verifSymInt("req.amount")}}}
		st.signer, st.spend = req.Authority, req
		st.fn = func(c sdk.Context) error { r, e := ms.SpendFeePool(c, req); st.resp = r; return e }
	case mSetBridgeInfo:
		info := symBridgeInfo("req.info")
		req := &types.MsgSetBridgeInfo{Sender: verifSymStr("req.sender"), BridgeInfo: info}
		st.signer, st.info = req.Sender, &info
		st.fn = func(c sdk.Context) error { r, e := ms.SetBridgeInfo(c, req); st.resp = r; return e }
	case mFinalizeDeposit:
		req := symFinalizeDeposit()
		req.Data = nil
		st.signer, st.deposit = req.Sender, req
		st.fn = func(c sdk.Context) error {
			r, e := ms.FinalizeTokenDeposit(c, req)
			st.resp = r
			if e == nil {
				st.depRes = r.Result
			}
			return e
		}
	case mWithdraw:
		req := symWithdraw()
		st.signer, st.withdraw = req.Sender, req
		st.fn = func(c sdk.Context) error {
			r, e := ms.InitiateTokenWithdrawal(c, req)
			st.resp = r
			if e == nil {
				st.wdSeq = r.Sequence
			}
			return e
		}
	default:
		req := &types.MsgUpdateOracle{Sender: verifSymStr("req.sender"), Height: verifSymU64("req.height"), Data: verifOpaqueBytes("req.data")}
		st.signer = req.Sender
		st.fn = func(c sdk.Context) error { r, e := ms.UpdateOracle(c, req); st.resp = r; return e }
	}
	return st
}

func anyStep(ms *MsgServer, ctx sdk.Context) step {
	st := newStep(ms)
	st.run(ctx)
	return *st
}

func stdBounds() {
	verifConfig("len:FeeWhitelist", 0)
	verifConfig("len:MinGasPrices", 0)
	verifConfig("maxlen:BridgeExecutors", 2)
	verifConfig("store:Validators", 2)
	verifConfig("slack", 3)
}
