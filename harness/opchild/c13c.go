//go:build verif

package keeper

import cmtprotocrypto "github.com/cometbft/cometbft/proto/tendermint/crypto"

type cmtPK = cmtprotocrypto.PublicKey
