//go:build verif

package keeper

import (
	codectypes "github.com/cosmos/cosmos-sdk/codec/types"
	sdk "github.com/cosmos/cosmos-sdk/types"

	"github.com/initia-labs/OPinit/x/opchild/types"
)

func symGenesisValidators(n int) []types.Validator {
	vals := make([]types.Validator, n)
	for i := range vals {
		vals[i] = types.Validator{
			Moniker:         verifSymStr("gen.val.moniker"),
			OperatorAddress: verifSymStr("gen.val.operator"),
			ConsensusPubkey: verifSym[*codectypes.Any]("gen.val.pubkey"),
			ConsPower:       verifSymQty64("gen.val.power"),
		}
	}
	return vals
}

// C13 Init: every genesis the module's own validation accepts initialises a state in which the index
// invariant holds, the returned updates describe exactly the bonded set, and the first block can begin.
func Harness_C13_GenesisInit() {
	verifConfig("emptystate", 1)
	verifConfig("len:FeeWhitelist", 0)
	verifConfig("len:MinGasPrices", 0)
	verifConfig("len:BridgeExecutors", 1)
	verifConfig("slack", 8)
	verifConfig("nolimit", 1)
	k := verifSym[Keeper]("k")
	ctx := verifSym[sdk.Context]("ctx")
	n := verifSymLen("gen.nvals", 0, 2)
	gs := &types.GenesisState{
		Params:         verifSym[types.Params]("gen.params"),
		Validators:     symGenesisValidators(n),
		NextL1Sequence: verifSymU64("gen.nextL1"),
		NextL2Sequence: verifSymU64("gen.nextL2"),
		Exported:       false,
	}
	verifAssume(types.ValidateGenesis(gs, k.authKeeper.AddressCodec()) == nil)
	// operator addresses are valid and pairwise distinct, powers are non-negative (what a genesis file written by
	// the chain's own tooling contains; ValidateGenesis itself checks key uniqueness only)
	ops := make([][]byte, len(gs.Validators))
	for i, v := range gs.Validators {
		op, err := k.validatorAddressCodec.StringToBytes(v.OperatorAddress)
		verifAssume(err == nil && v.ConsPower >= 0)
		ops[i] = op
		for j := 0; j < i; j++ {
			verifAssume(string(ops[j]) != string(op)) // distinct addresses, whatever their spelling
		}
	}
	var ups []abciUpdate
	pan := false
	func() {
		defer func() {
			if r := recover(); r != nil {
				pan = true
			}
		}()
		for _, u := range k.InitGenesis(ctx, gs) {
			ups = append(ups, abciUpdate{u.PubKey, u.Power})
		}
	}()
	verifAssert("a validated genesis initialises without panic", !pan)
	if pan {
		return
	}
	verifReach("genesis initialised")
	var bonded []cometVal
	for _, r := range k.allRecords(ctx) {
		if r.val.ConsPower > 0 {
			bonded = append(bonded, cometVal{tmKey(r.val), r.val.ConsPower})
		}
	}
	var told []cometVal
	for _, u := range ups {
		told = append(told, cometVal{u.key, u.power})
	}
	verifAssert("initial validator updates describe exactly the bonded set", sameSet(told, bonded))
	if verifKnown("C13-genesis-over-cap", len(gs.Validators) > int(gs.Params.MaxValidators)) {
		verifAssert("a validated genesis never holds more validators than the maximum", false)
	}
	verifAssert("genesis establishes the index invariant", invValidators(ctx, &k))
	// the first block can begin
	bctx := ctx.WithBlockHeight(1)
	var berr error
	func() {
		defer func() {
			if r := recover(); r != nil {
				pan = true
			}
		}()
		berr = k.TrackHistoricalInfo(bctx)
	}()
	verifAssert("the first block begins without panic", !pan)
	verifAssert("the first block begins without error", berr == nil)
}

type abciUpdate struct {
	key   cmtPK
	power int64
}
