//go:build verif

package keeper

import (
	"cosmossdk.io/math"
	sdk "github.com/cosmos/cosmos-sdk/types"

	"github.com/initia-labs/OPinit/x/opchild/types"
)

func claimableAmount(a math.Int) bool { return a.IsPositive() && a.IsUint64() }

// C04 (L2 half, user withdrawal): every withdrawal the L2 accepts and records satisfies the predicate the L1
// half assumes.
func Harness_C04_L2_WithdrawalRecordable() {
	verifConfig("len:FeeWhitelist", 0)
	verifConfig("len:MinGasPrices", 0)
	verifConfig("len:BridgeExecutors", 1)
	k, ms, ctx := setup()
	_ = k
	req := symWithdraw()
	err, pan := runMsg(ctx, func(c sdk.Context) error { _, e := ms.InitiateTokenWithdrawal(c, req); return e })
	if ok(err, pan) {
		verifReach("withdrawal recorded")
		verifAssert("a recorded withdrawal has an amount the L1 leaf format can carry", claimableAmount(req.Amount.Amount))
		verifAssert("a recorded withdrawal names a sender", len(req.Sender) > 0)
	}
}

// C04 (L2 half, refund): a deposit L1 can emit (see Harness_C04_L1_DepositRefundable) that is refunded is
// recorded with a claimable amount.
func Harness_C04_L2_RefundRecordable() {
	verifConfig("len:FeeWhitelist", 0)
	verifConfig("len:MinGasPrices", 0)
	verifConfig("len:BridgeExecutors", 1)
	verifConfig("fault:SendCoinsFromModuleToAccount", 1)
	k, ms, ctx := setup()
	req := symFinalizeDeposit()
	req.Data = nil
	nW := len(eventsOf(ctx, types.EventTypeInitiateTokenWithdrawal))
	// what L1 emits: positive deposits fit 64 bits (asserted on the L1 side)
	verifAssume(!req.Amount.Amount.IsPositive() || claimableAmount(req.Amount.Amount))
	err, pan := runMsg(ctx, func(c sdk.Context) error { _, e := ms.FinalizeTokenDeposit(c, req); return e })
	evs := eventsOf(ctx, types.EventTypeInitiateTokenWithdrawal)
	if ok(err, pan) && len(evs) == nW+1 && req.Amount.Amount.IsPositive() {
		verifReach("refund recorded")
		verifAssert("refund amount is the deposit amount (claimable)", attrIs(evs[nW], types.AttributeKeyAmount, req.Amount.Amount.String()) && claimableAmount(req.Amount.Amount))
		verifAssert("refund names the L1 sender as recipient", attrIs(evs[nW], types.AttributeKeyTo, req.From) && len(req.From) > 0)
	}
	_ = k
}
