//go:build verif

package keeper

import (
	cosmostypes "github.com/cosmos/cosmos-sdk/x/staking/types"
)

// C13 BeginBlock: the per-height historical record lists exactly the bonded set, within the retention.
func Harness_C13_BeginBlock() {
	c13Bounds()
	verifConfig("store:HistoricalInfos", 2)
	verifConfig("len:Valset", 0) // contents of older entries are irrelevant here
	k, _, ctx := setup()
	verifAssume(invValidators(ctx, k))
	// block boundary (P4): no zero-power record, last powers are exactly the positive-power records
	recs := k.allRecords(ctx)
	last := k.lastPowers(ctx)
	verifAssume(len(recs) == len(last))
	for _, r := range recs {
		verifAssume(r.val.ConsPower > 0)
		p, err := k.GetLastValidatorPower(ctx, r.key)
		verifAssume(err == nil && p == r.val.ConsPower)
		verifAssume(r.val.ConsPower < 1<<40) // bound: powers below 2^40 (power x 10^6 fits 64 bits)
	}
	h := ctx.BlockHeight()
	entries, _ := k.HistoricalEntries(ctx)
	// P5: stored heights form a contiguous range ending at h-1
	var heights []int64
	_ = k.HistoricalInfos.Walk(ctx, nil, func(height int64, _ cosmostypes.HistoricalInfo) (bool, error) {
		heights = append(heights, height)
		return false, nil
	})
	for i, hh := range heights {
		verifAssume(hh >= 0 && hh < h)
		if i > 0 {
			verifAssume(hh == heights[i-1]+1)
		}
	}
	if len(heights) > 0 {
		verifAssume(heights[len(heights)-1] == h-1)
	}
	var err error
	pan := false
	func() {
		defer func() {
			if r := recover(); r != nil {
				pan = true
			}
		}()
		err = k.TrackHistoricalInfo(ctx)
	}()
	verifAssert("begin block does not panic", !pan)
	verifAssert("begin block does not fail", err == nil)
	if pan || err != nil {
		return
	}
	verifReach("beginblock")
	hi, herr := k.GetHistoricalInfo(ctx, h)
	if entries == 0 {
		verifAssert("no record is kept when retention is zero", herr != nil)
	} else {
		verifAssert("the current height is recorded", herr == nil)
		verifAssert("the record lists as many validators as are bonded", len(hi.Valset) == len(recs))
		for _, hv := range hi.Valset {
			found := false
			for _, r := range recs {
				if hv.ConsensusPubkey.Equal(r.val.ConsensusPubkey) {
					found = true
				}
			}
			verifAssert("every listed validator is a bonded validator", found)
			verifAssert("listed validators are marked bonded", hv.Status == cosmostypes.Bonded)
		}
	}
	// retention: nothing at or below h - entries survives. (With a retention of zero the pruning loop starts at
	// the current height, finds nothing and stops, so older entries stay; the property speaks of the record
	// "within the configured retention", which is empty then — noted in DESIGN.md, not asserted.)
	for _, hh := range heights {
		if entries > 0 && hh <= h-int64(entries) {
			_, gerr := k.GetHistoricalInfo(ctx, hh)
			verifAssert("entries older than the retention are pruned", gerr != nil)
		}
	}
}
