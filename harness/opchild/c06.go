//go:build verif

package keeper

import (
	sdk "github.com/cosmos/cosmos-sdk/types"

	"github.com/initia-labs/OPinit/x/opchild/types"
)

func paramsBounds() {
	verifConfig("maxlen:BridgeExecutors", 2)
	// fee whitelist and gas prices play no role in the message handlers (C20 covers them)
	verifConfig("len:FeeWhitelist", 0)
	verifConfig("len:MinGasPrices", 0)
}

// C06 step: one FinalizeTokenDeposit delivery (any sequence, any sender) from an arbitrary state.
func Harness_C06_DeliveryStep() {
	paramsBounds()
	k, ms, ctx := setup()
	req := symFinalizeDeposit()
	req.Data = nil // hook payloads are the subject of C07 (which also shows the sequence advances with them)
	next := k.nextL1(ctx)
	l2 := k.nextL2(ctx)
	verifAssume(next < 1<<62 && l2 < 1<<62) // bound: the 64-bit counters do not wrap
	// the query names the sequence the handler expects next, in every state (also before the first deposit, when
	// nothing is stored yet: one plus zero processed)
	q0, q0err := NewQuerier(k).NextL1Sequence(ctx, &types.QueryNextL1SequenceRequest{})
	verifAssert("the next-sequence query names the sequence the handler expects", q0err == nil && q0.NextL1Sequence == next)
	authorised := k.isExecutor(ctx, req.Sender)
	to, toOK := k.addr(req.To)
	var balTo = k.sup(ctx, req.Amount.Denom)
	if toOK {
		balTo = k.bal(ctx, to, req.Amount.Denom)
	}
	sup0 := k.sup(ctx, req.Amount.Denom)
	nEv := len(ctx.EventManager().Events())
	pair0, pairErr0 := k.DenomPairs.Get(ctx, req.Amount.Denom)

	var res *types.MsgFinalizeTokenDepositResponse
	err, pan := runMsg(ctx, func(c sdk.Context) error {
		r, e := ms.FinalizeTokenDeposit(c, req)
		res = r
		return e
	})
	verifAssert("deposit finalization never panics", !pan)
	if pan {
		return
	}
	switch {
	case err == nil && res.Result == types.NOOP:
		verifReach("noop")
		verifAssert("NOOP only for an already processed sequence", req.Sequence < next)
		verifAssert("NOOP only for an authorised executor", authorised)
		verifAssert("NOOP leaves the next sequence", k.nextL1(ctx) == next)
		verifAssert("NOOP leaves the L2 sequence", k.nextL2(ctx) == l2)
		verifAssert("NOOP mints nothing", k.sup(ctx, req.Amount.Denom).Equal(sup0))
		if toOK {
			verifAssert("NOOP credits nothing", k.bal(ctx, to, req.Amount.Denom).Equal(balTo))
		}
		verifAssert("NOOP emits nothing", len(ctx.EventManager().Events()) == nEv)
		pair1, pairErr1 := k.DenomPairs.Get(ctx, req.Amount.Denom)
		verifAssert("NOOP leaves the denom mapping", (pairErr0 == nil) == (pairErr1 == nil) && pair0 == pair1)
	case err == nil:
		verifReach("processed")
		verifAssert("processed only at the expected sequence", req.Sequence == next)
		verifAssert("processed only for an authorised executor", authorised)
		verifAssert("processing advances the sequence by one", k.nextL1(ctx) == next+1)
		verifAssert("a processed deposit reports SUCCESS", res.Result == types.SUCCESS)
		q, qerr := NewQuerier(k).NextL1Sequence(ctx, &types.QueryNextL1SequenceRequest{})
		verifAssert("next-sequence query equals one plus the number processed", qerr == nil && q.NextL1Sequence == next+1)
	default:
		verifReach("rejected")
		verifAssert("a rejected delivery leaves the sequence", k.nextL1(ctx) == next)
		verifAssert("a rejected delivery mints nothing", k.sup(ctx, req.Amount.Denom).Equal(sup0))
		if authorised && req.Sequence == next {
			// what L1 can emit always passes validation (C07 handles this in full); here: no stall at the gate
			verifAssert("an expected, authorised delivery is rejected only by message validation",
				req.Validate(k.authKeeper.AddressCodec()) != nil)
		}
		if req.Sequence > next && authorised && req.Validate(k.authKeeper.AddressCodec()) == nil {
			verifReach("ahead rejected")
		}
	}
	if req.Sequence > next {
		verifAssert("a delivery ahead of the expected sequence is rejected", err != nil)
	}
	if !authorised {
		verifAssert("an unauthorised delivery is rejected", err != nil)
	}
}

// C06 with re-entry: hook payloads are signed transactions routed through the normal message router, so the hook
// of deposit N may itself carry a deposit finalization (an executor racing through the hook). Whatever that inner
// message names, the sequences processed in this step are exactly next, next+1, ... (each once), and the counter
// equals one plus the number processed.
func Harness_C06_ReentrantHook() {
	paramsBounds()
	verifConfig("len:BridgeExecutors", 1)
	verifConfig("hook.clean", 1) // bound: the hook transaction decodes, passes the ante chain and carries exactly the inner deposit
	verifConfig("hookmsgs", 1)
	k, ms, ctx := setup()
	req := symFinalizeDeposit()
	inner := &types.MsgFinalizeTokenDeposit{
		Sender: verifSymStr("inner.sender"), From: verifSymStr("inner.from"), To: verifSymStr("inner.to"),
		Amount:   sdk.Coin{Denom: verifSymStr("inner.denom"), Amount: verifSymInt("inner.amount")},
		Sequence: verifSymU64("inner.sequence"), Height: verifSymU64("inner.height"), BaseDenom: verifSymStr("inner.baseDenom"),
	}
	verifOnRoute(inner, routed(func(c sdk.Context) error { _, err := ms.FinalizeTokenDeposit(c, inner); return err }))
	next := k.nextL1(ctx)
	verifAssume(next < 1<<62 && k.nextL2(ctx) < 1<<62)
	verifAssume(req.Sequence == next && k.isExecutor(ctx, req.Sender))
	// bound: both messages are well-formed deposits of positive amounts to valid recipients (C07 covers the rest)
	verifAssume(req.Validate(k.authKeeper.AddressCodec()) == nil && inner.Validate(k.authKeeper.AddressCodec()) == nil)
	_, toOK := k.addr(req.To)
	_, itoOK := k.addr(inner.To)
	verifAssume(toOK && itoOK && req.Amount.Amount.IsPositive() && inner.Amount.Amount.IsPositive())
	nEv := len(eventsOf(ctx, types.EventTypeFinalizeTokenDeposit))
	sup0 := k.sup(ctx, req.Amount.Denom)
	err, pan := runMsg(ctx, func(c sdk.Context) error { _, e := ms.FinalizeTokenDeposit(c, req); return e })
	if !ok(err, pan) {
		return
	}
	verifReach("outer processed")
	// the outer message is the deposit `next`; the counter tells how many deposits were processed in this step:
	// a second one can only be the inner message and must then be the deposit next+1 (never `next` again)
	next1 := k.nextL1(ctx)
	verifAssert("one or two deposits are processed", next1 == next+1 || next1 == next+2)
	if next1 == next+2 {
		verifReach("inner processed too")
		verifAssert("no L1 sequence is processed twice", inner.Sequence != req.Sequence)
		verifAssert("the processed sequences are exactly the next two", inner.Sequence == next+1)
	}
	_ = nEv
	_ = sup0
}

// C06 frame: the expected L1 sequence is moved by delivered deposits only — no other message (bridge info,
// params, validators, fee pool, withdrawals) rewinds, skips or re-initialises it, whatever the state it finds
// (in particular a bridge registered late, after deposits were already relayed).
func Harness_C06_SequenceFrame() {
	stdBounds()
	k, ms, ctx := setup()
	next := k.nextL1(ctx)
	verifAssume(next < 1<<62)
	st := newStep(ms)
	verifAssume(st.which != mFinalizeDeposit)                              // DeliveryStep's subject
	verifAssume(st.which != mExecuteMessages && st.which != mUpdateOracle) // stub-routed inner messages / oracle: C12, C15
	st.run(ctx)
	if !st.ok() {
		return
	}
	verifReach("another message succeeded")
	verifAssert("only a delivered deposit moves the expected L1 sequence", k.nextL1(ctx) == next)
}
