//go:build verif

package keeper

import (
	"strconv"

	sdk "github.com/cosmos/cosmos-sdk/types"

	"github.com/initia-labs/OPinit/x/opchild/types"
)

// C07 step: the finalization of an arbitrary deposit L1 can emit, at the expected sequence, by an authorised
// executor — with failures and panics injected into the mint, the transfer, the tx decoder, the ante
// decorators and every routed hook message.
func Harness_C07_DepositNeverLostNeverStalls() {
	verifConfig("len:FeeWhitelist", 0)
	verifConfig("len:MinGasPrices", 0)
	verifConfig("len:BridgeExecutors", 1)
	verifConfig("fault:MintCoins", 1)
	verifConfig("fault:SendCoinsFromModuleToAccount", 1)
	if verifThorough() {
		verifConfig("hookmsgs", 2)
	} else {
		verifConfig("hookmsgs", 1)
	}
	k, ms, ctx := setup()
	req := symFinalizeDeposit()
	ac := k.authKeeper.AddressCodec()
	verifAssume(req.Validate(ac) == nil) // what the L1 side can emit
	verifAssume(k.isExecutor(ctx, req.Sender))
	next, l2 := k.nextL1(ctx), k.nextL2(ctx)
	verifAssume(req.Sequence == next)
	verifAssume(next < 1<<62 && l2 < 1<<62)
	params, _ := k.GetParams(ctx)
	D, A := req.Amount.Denom, req.Amount.Amount
	to, toOK := k.addr(req.To)
	sup0 := k.sup(ctx, D)
	bal0 := sup0
	if toOK {
		bal0 = k.bal(ctx, to, D)
	}
	pair0, pairErr0 := k.DenomPairs.Get(ctx, D)
	// an arbitrary bystander account/denom for the frame condition
	xs, dx := verifSymStr("acctX"), verifSymStr("denomX")
	verifAssume(sdk.ValidateDenom(dx) == nil) // only valid denoms can be held (the bank panics on others)
	x, xOK := k.addr(xs)
	verifAssume(xOK)
	balX0, supX0 := k.bal(ctx, x, dx), k.sup(ctx, dx)
	nEv := len(ctx.EventManager().Events())
	g0 := ctx.GasMeter().GasConsumed()

	var res *types.MsgFinalizeTokenDepositResponse
	err, pan := runMsg(ctx, func(c sdk.Context) error {
		r, e := ms.FinalizeTokenDeposit(c, req)
		res = r
		return e
	})
	verifAssert("a deposit never turns into a panic", !pan)
	verifAssert("a deposit never turns into a handler error (which would stall every later deposit)", err == nil)
	if !ok(err, pan) {
		return
	}
	verifAssert("the deposit is reported processed", res.Result == types.SUCCESS)
	verifAssert("the L1 sequence always advances", k.nextL1(ctx) == next+1)
	evs := ctx.EventManager().Events()[nEv:]
	var wd, fin []sdk.Event
	for _, ev := range evs {
		switch ev.Type {
		case types.EventTypeInitiateTokenWithdrawal:
			wd = append(wd, ev)
		case types.EventTypeFinalizeTokenDeposit:
			fin = append(fin, ev)
		}
	}
	verifAssert("exactly one finalize event", len(fin) == 1)
	verifAssert("at most one refund withdrawal", len(wd) <= 1)
	used := ctx.GasMeter().GasConsumed() - g0
	verifAssert("the hook spends at most the configured hook gas", used <= params.HookMaxGas)
	if len(fin) != 1 || len(wd) > 1 {
		return
	}
	verifNote("finalize event", fin[0])
	success := attrIs(fin[0], types.AttributeKeySuccess, "true")
	if len(wd) == 1 {
		verifReach("refunded")
		verifAssert("a refunded deposit is reported as failed", !success)
		verifAssert("refund: no net mint", k.sup(ctx, D).Equal(sup0))
		if toOK {
			verifAssert("refund: recipient keeps nothing", k.bal(ctx, to, D).Equal(bal0))
		}
		verifAssert("refund takes the next L2 sequence", k.nextL2(ctx) == l2+1)
		w := wd[0]
		verifAssert("refund goes from the named recipient", attrIs(w, types.AttributeKeyFrom, req.To))
		verifAssert("refund goes back to the L1 sender", attrIs(w, types.AttributeKeyTo, req.From))
		verifAssert("refund names the deposited denom", attrIs(w, types.AttributeKeyDenom, D))
		verifAssert("refund carries the full amount", attrIs(w, types.AttributeKeyAmount, A.String()))
		verifAssert("refund is recorded under the old next L2 sequence", attrIs(w, types.AttributeKeyL2Sequence, strconv.FormatUint(l2, 10)))
		if pairErr0 == nil {
			verifAssert("refund names the registered base denom", attrIs(w, types.AttributeKeyBaseDenom, pair0))
		} else {
			verifAssert("refund names the base denom of the deposit", attrIs(w, types.AttributeKeyBaseDenom, req.BaseDenom))
		}
		// nothing of the hook messages or of the mint survives
		verifAssert("refund: no balance anywhere changed", k.bal(ctx, x, dx).Equal(balX0))
		verifAssert("refund: no supply anywhere changed", k.sup(ctx, dx).Equal(supX0))
	} else {
		verifReach("credited")
		verifAssert("a credited deposit is reported successful", success)
		verifAssert("credit records no withdrawal and keeps the L2 sequence", k.nextL2(ctx) == l2)
		hookRan := len(req.Data) > 0
		if !hookRan {
			verifAssert("credit: supply grows by exactly the amount", k.sup(ctx, D).Equal(sup0.Add(A)))
			if toOK {
				verifAssert("credit: recipient receives the full amount", k.bal(ctx, to, D).Equal(bal0.Add(A)))
			}
			verifAssert("a credit needs a valid recipient", toOK)
		}
	}
}
