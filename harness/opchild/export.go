//go:build verif

package keeper

import (
	abci "github.com/cometbft/cometbft/abci/types"
	sdk "github.com/cosmos/cosmos-sdk/types"

	"github.com/initia-labs/OPinit/x/opchild/types"
)

// Exported wrappers for harnesses that have to live in package opchild (EndBlocker / BeginBlocker are there).

type CometVal = cometVal

func VerifSetupC13() (*Keeper, sdk.Context) {
	c13Bounds()
	k, _, ctx := setup()
	return k, ctx
}
func VerifAssume(c bool)                  { verifAssume(c) }
func VerifAssert(label string, c bool)    { verifAssert(label, c) }
func VerifReach(label string)             { verifReach(label) }
func VerifKnown(id string, c bool) bool   { return verifKnown(id, c) }
func VerifSymStr(name string) string      { return verifSymStr(name) }
func VerifSymU64(name string) uint64      { return verifSymU64(name) }
func VerifSymLen(n string, lo, hi int) int { return verifSymLen(n, lo, hi) }
func VerifChoice(n string, k int) int     { return verifChoice(n, k) }
func VerifConfig(key string, v int)       { verifConfig(key, v) }
func VerifThorough() bool                 { return verifThorough() }
func VerifPlanValidator(name string) types.Validator {
	return types.Validator{Moniker: verifSymStr(name + ".moniker"), OperatorAddress: verifSymStr(name + ".operator"),
		ConsensusPubkey: verifSymAny(name + ".pubkey"), ConsPower: 1}
}
func VerifInvValidators(ctx sdk.Context, k *Keeper) bool { return invValidators(ctx, k) }
func VerifGhostOf(ctx sdk.Context, k *Keeper) ([]CometVal, bool) { return k.ghostOf(ctx) }
func VerifRefApply(set []CometVal, ups []abci.ValidatorUpdate) ([]CometVal, bool) { return refApply(set, ups) }
func VerifSameSet(a, b []CometVal) bool   { return sameSet(a, b) }
func VerifBonded(ctx sdk.Context, k *Keeper) (bonded []CometVal, zero int) {
	for _, r := range k.allRecords(ctx) {
		if r.val.ConsPower > 0 {
			bonded = append(bonded, cometVal{tmKey(r.val), r.val.ConsPower})
		} else {
			zero++
		}
	}
	return
}
func VerifOne(v types.Validator) []CometVal { return []CometVal{{tmKey(v), 1}} }
func VerifHasOperator(ctx sdk.Context, k *Keeper, op string) bool {
	a, err := k.validatorAddressCodec.StringToBytes(op)
	if err != nil {
		return false
	}
	_, found := k.GetValidator(ctx, a)
	return found
}
func VerifHasKey(ctx sdk.Context, k *Keeper, v types.Validator) bool {
	ca, err := v.GetConsAddr()
	if err != nil {
		return false
	}
	_, found := k.GetValidatorByConsAddr(ctx, ca)
	return found
}

// VerifSameRecord: the plan names a validator that is already stored with exactly this operator and this key
func VerifSameRecord(ctx sdk.Context, k *Keeper, v types.Validator) bool {
	a, err := k.validatorAddressCodec.StringToBytes(v.OperatorAddress)
	if err != nil {
		return false
	}
	cur, found := k.GetValidator(ctx, a)
	if !found {
		return false
	}
	return pkEq(tmKey(cur), tmKey(v))
}
func VerifCount(ctx sdk.Context, k *Keeper) int { return len(k.allRecords(ctx)) }
func VerifValidOperator(k *Keeper, op string) bool {
	_, err := k.validatorAddressCodec.StringToBytes(op)
	return err == nil
}
func VerifValidAccount(k *Keeper, a string) bool {
	_, err := k.addressCodec.StringToBytes(a)
	return err == nil
}

func VerifSetupStd() (*Keeper, sdk.Context) {
	stdBounds()
	k, _, ctx := setup()
	return k, ctx
}
func VerifSymDeposit(name string) *types.MsgFinalizeTokenDeposit {
	return &types.MsgFinalizeTokenDeposit{
		Sender: verifSymStr(name + ".sender"), From: verifSymStr(name + ".from"), To: verifSymStr(name + ".to"),
		Amount:   sdk.Coin{Denom: verifSymStr(name + ".denom"), Amount: verifSymInt(name + ".amount")},
		Sequence: verifSymU64(name + ".sequence"), Height: verifSymU64(name + ".height"), BaseDenom: verifSymStr(name + ".baseDenom"),
	}
}
func VerifIsExecutor(ctx sdk.Context, k *Keeper, s string) bool { return k.isExecutor(ctx, s) }
func VerifNextL1(ctx sdk.Context, k *Keeper) uint64              { return k.nextL1(ctx) }
func VerifValidDeposit(k *Keeper, m *types.MsgFinalizeTokenDeposit) bool {
	return m.Validate(k.authKeeper.AddressCodec()) == nil
}
func VerifSymBool(name string) bool { return verifSymBool(name) }

func VerifSetupMin() (*Keeper, sdk.Context) {
	verifConfig("len:FeeWhitelist", 0)
	verifConfig("len:MinGasPrices", 0)
	verifConfig("len:BridgeExecutors", 1)
	k, _, ctx := setup()
	return k, ctx
}

// C18 self-composition from package opchild
func VerifTwice18(ctx sdk.Context, fn func(c sdk.Context) (any, error)) { twice18(ctx, fn) }
