//go:build verif

package keeper

import (
	abci "github.com/cometbft/cometbft/abci/types"
	cmtprotocrypto "github.com/cometbft/cometbft/proto/tendermint/crypto"
	sdk "github.com/cosmos/cosmos-sdk/types"

	"github.com/initia-labs/OPinit/x/opchild/types"
)

// ---- reference model of the consensus engine's validator set ----

type cometVal struct {
	key   cmtprotocrypto.PublicKey
	power int64
}

func pkEq(a, b cmtprotocrypto.PublicKey) bool { return a.Equal(b) }

// refApply: CometBFT's acceptance rules for one batch of validator updates: no negative power, no key twice
// in a batch, no removal of an unknown key. Returns the new set.
func refApply(set []cometVal, ups []abci.ValidatorUpdate) ([]cometVal, bool) {
	for i := range ups {
		if ups[i].Power < 0 {
			return nil, false
		}
		for j := 0; j < i; j++ {
			if pkEq(ups[i].PubKey, ups[j].PubKey) {
				return nil, false
			}
		}
	}
	out := append([]cometVal{}, set...)
	for _, u := range ups {
		idx := -1
		for i := range out {
			if pkEq(out[i].key, u.PubKey) {
				idx = i
			}
		}
		switch {
		case u.Power == 0 && idx < 0:
			return nil, false
		case u.Power == 0:
			out = append(out[:idx], out[idx+1:]...)
		case idx >= 0:
			out[idx].power = u.Power
		default:
			out = append(out, cometVal{u.PubKey, u.Power})
		}
	}
	return out, true
}

func sameSet(a, b []cometVal) bool {
	if len(a) != len(b) {
		return false
	}
	for _, x := range a {
		found := false
		for _, y := range b {
			if pkEq(x.key, y.key) && x.power == y.power {
				found = true
			}
		}
		if !found {
			return false
		}
	}
	return true
}

// ---- observations through the keeper's own API ----

type valRec struct {
	key []byte
	val types.Validator
}

func (k *Keeper) allRecords(ctx sdk.Context) []valRec {
	var out []valRec
	err := k.Validators.Walk(ctx, nil, func(key []byte, v types.Validator) (bool, error) {
		out = append(out, valRec{key, v})
		return false, nil
	})
	if err != nil {
		panic(err)
	}
	return out
}

type powRec struct {
	op    []byte
	power int64
}

func (k *Keeper) lastPowers(ctx sdk.Context) []powRec {
	var out []powRec
	err := k.IterateLastValidatorPowers(ctx, func(op []byte, p int64) (bool, error) {
		out = append(out, powRec{op, p})
		return false, nil
	})
	if err != nil {
		panic(err)
	}
	return out
}

func (k *Keeper) consIndexSize(ctx sdk.Context) int {
	n := 0
	_ = k.ValidatorsByConsAddr.Walk(ctx, nil, func(key []byte, op []byte) (bool, error) { n++; return false, nil })
	return n
}

func tmKey(v types.Validator) cmtprotocrypto.PublicKey {
	pk, err := v.TmConsPublicKey()
	if err != nil {
		panic(err)
	}
	return pk
}

// consensus set implied by the last-power table (every entry must have a record)
func (k *Keeper) ghostOf(ctx sdk.Context) ([]cometVal, bool) {
	var out []cometVal
	for _, p := range k.lastPowers(ctx) {
		v, found := k.GetValidator(ctx, p.op)
		if !found {
			return nil, false
		}
		out = append(out, cometVal{tmKey(v), p.power})
	}
	return out, true
}

// invValidators (Appendix A, P2/P3): record keys are the operator addresses, the consensus-address index is
// exactly the records' consensus addresses, distinct records have distinct keys, last powers are positive
// and refer to records, the count is within the cap.
func invValidators(ctx sdk.Context, k *Keeper) bool {
	recs := k.allRecords(ctx)
	for i, r := range recs {
		op, err := k.validatorAddressCodec.StringToBytes(r.val.OperatorAddress)
		if err != nil || string(op) != string(r.key) {
			return false
		}
		if r.val.ConsPower < 0 || r.val.ConsensusPubkey == nil {
			return false
		}
		ca, cerr := r.val.GetConsAddr()
		if cerr != nil {
			return false
		}
		idx, ierr := k.ValidatorsByConsAddr.Get(ctx, ca)
		if ierr != nil || string(idx) != string(r.key) {
			return false
		}
		for j := 0; j < i; j++ {
			if pkEq(tmKey(recs[j].val), tmKey(r.val)) {
				return false
			}
		}
	}
	if k.consIndexSize(ctx) != len(recs) {
		return false
	}
	maxV, err := k.MaxValidators(ctx)
	if err != nil || len(recs) > int(maxV) {
		return false
	}
	for _, p := range k.lastPowers(ctx) {
		if p.power <= 0 {
			return false
		}
		if _, found := k.GetValidator(ctx, p.op); !found {
			return false
		}
	}
	return true
}

func c13Bounds() {
	verifConfig("len:FeeWhitelist", 0)
	verifConfig("len:MinGasPrices", 0)
	verifConfig("len:BridgeExecutors", 1)
	n := 2
	if verifThorough() {
		n = 3
	}
	verifConfig("store:Validators", n)
	verifConfig("store:ValidatorsByConsAddr", n)
	verifConfig("store:LastValidatorPowers", n)
	verifConfig("slack", 3)
}

// C13 EndBlock step from an arbitrary mid-block state (records added and/or removed during the block).
func Harness_C13_EndBlock() {
	c13Bounds()
	k, _, ctx := setup()
	verifAssume(invValidators(ctx, k))
	ghost, gok := k.ghostOf(ctx)
	verifAssume(gok)
	// no executor-change plan at this height (C14 covers plans)
	ups, err := k.BlockValidatorUpdates(ctx)
	verifAssert("block processing does not fail", err == nil)
	if err != nil {
		return
	}
	verifReach("endblock")
	g2, accepted := refApply(ghost, ups)
	verifAssert("the returned batch is one the consensus engine accepts", accepted)
	if !accepted {
		return
	}
	recs := k.allRecords(ctx)
	var bonded []cometVal
	for _, r := range recs {
		if verifKnown("C13-zombie", r.val.ConsPower == 0) {
			verifAssert("a removed validator is gone from state by the end of the block", false)
		}
		if r.val.ConsPower > 0 {
			bonded = append(bonded, cometVal{tmKey(r.val), r.val.ConsPower})
		}
	}
	verifAssert("consensus set equals the positive-power validators in state", sameSet(g2, bonded))
	g3, gok3 := k.ghostOf(ctx)
	verifAssert("last powers refer to stored validators", gok3)
	if gok3 {
		verifAssert("consensus set equals the recorded last powers", sameSet(g2, g3))
	}
	verifAssert("indexes stay one-to-one and the count within the cap", invValidators(ctx, k))
}

// C13 message steps: add / remove / param change preserve the index invariant; the consensus set is untouched
// until the end of the block.
func Harness_C13_MsgStep() {
	c13Bounds()
	k, ms, ctx := setup()
	verifAssume(invValidators(ctx, k))
	ghost, gok := k.ghostOf(ctx)
	verifAssume(gok)
	st := newStep(ms)
	verifAssume(st.which == mAddValidator || st.which == mRemoveValidator || st.which == mUpdateParams)
	n0 := len(k.allRecords(ctx))
	st.run(ctx)
	verifAssert("validator messages keep the indexes one-to-one and the count within the cap", invValidators(ctx, k))
	g2, gok2 := k.ghostOf(ctx)
	verifAssert("messages do not touch what consensus was told", gok2 && sameSet(ghost, g2))
	if st.ok() && st.which == mAddValidator {
		verifReach("validator added")
		verifAssert("add creates exactly one record", len(k.allRecords(ctx)) == n0+1)
	}
	if st.ok() && st.which == mRemoveValidator {
		verifReach("validator removed")
		op, _ := k.validatorAddressCodec.StringToBytes(st.rmVal.ValidatorAddress)
		v, found := k.GetValidator(ctx, op)
		verifAssert("remove marks the record with zero power", found && v.ConsPower == 0)
	}
}
