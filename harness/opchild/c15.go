//go:build verif

package keeper

import (
	"bytes"

	cometabci "github.com/cometbft/cometbft/abci/types"
	cryptoenc "github.com/cometbft/cometbft/crypto/encoding"
	cmtproto "github.com/cometbft/cometbft/proto/tendermint/types"
	cryptocodec "github.com/cosmos/cosmos-sdk/crypto/codec"
	sdk "github.com/cosmos/cosmos-sdk/types"
	stakingtypes "github.com/cosmos/cosmos-sdk/x/staking/types"
	protoio "github.com/cosmos/gogoproto/io"
	connectaggregator "github.com/skip-mev/connect/v2/abci/strategies/aggregator"
	connecttypes "github.com/skip-mev/connect/v2/pkg/types"

	"github.com/initia-labs/OPinit/x/opchild/l2connect"
	"github.com/initia-labs/OPinit/x/opchild/types"
)

// C15: the OPinit-owned part of the oracle path. connect's codecs, vote aggregator (median, per-pair two-thirds
// threshold over distinct validators) and the ed25519 primitive are stubs: arbitrary, deterministic.

// C15 signatures: the vote-extension validation on its own (more votes and validators than the handler harness):
// it accepts only if every commit vote of a recorded validator — every entry of the list, also repeated ones —
// carries that validator's valid signature, and other votes of recorded validators carry nothing.
func Harness_C15_VoteExtensions() {
	verifConfig("len:FeeWhitelist", 0)
	verifConfig("len:MinGasPrices", 0)
	verifConfig("len:BridgeExecutors", 1)
	verifConfig("len:UnbondingIds", 0)
	n := 2
	if verifThorough() {
		n = 3
	}
	verifConfig("store:validators", 2)
	verifConfig("len:Votes", n)
	k, _, ctx := setup()
	commit := verifSym[cometabci.ExtendedCommitInfo]("commit")
	h := verifSymQty64("height")
	chainID := verifSymStr("chainID")
	var err error
	pan := false
	func() {
		defer func() {
			if r := recover(); r != nil {
				pan = true // e.g. recorded stake beyond 64 bits: the message fails, nothing is written
			}
		}()
		err = l2connect.ValidateVoteExtensions(ctx, k.HostValidatorStore, h, chainID, commit)
	}()
	if err != nil || pan {
		verifReach("refused")
		return
	}
	verifReach("accepted")
	for _, vote := range commit.Votes {
		hv, herr := k.HostValidatorStore.validators.Get(ctx, vote.Validator.Address)
		if herr != nil {
			continue
		}
		if vote.BlockIdFlag == cmtproto.BlockIDFlagCommit {
			pkProto, perr := hv.CmtConsPublicKey()
			verifAssert("a recorded validator has a usable key", perr == nil)
			if perr != nil {
				continue
			}
			pk, kerr := cryptoenc.PubKeyFromProto(pkProto)
			verifAssert("a recorded validator has a usable key", kerr == nil)
			if kerr != nil {
				continue
			}
			msg := refSignBytes(chainID, h, int64(commit.Round), vote.VoteExtension)
			verifAssert("every commit vote of a recorded validator carries its valid signature over (chain id, height, round, extension)",
				pk.VerifySignature(msg, vote.ExtensionSignature))
		} else {
			verifAssert("non-commit votes carry no extension and no signature", len(vote.VoteExtension) == 0 && len(vote.ExtensionSignature) == 0)
		}
	}
}

func c15Bounds() {
	verifConfig("len:FeeWhitelist", 0)
	verifConfig("len:MinGasPrices", 0)
	verifConfig("maxlen:BridgeExecutors", 2)
	n := 1
	verifConfig("store:validators", n) // the recorded L1 validator set (closed world)
	verifConfig("maxlen:Votes", n)
	verifConfig("maxlen:CurrencyPairs", 1)
	verifConfig("maxlen:AggregatedPairs", 1)
	verifConfig("len:UnbondingIds", 0)
}

// refSignBytes: what a validator signs for a vote extension (CometBFT's canonical form), per the spec:
// length-delimited CanonicalVoteExtension{extension, height, round, chain id}
func refSignBytes(chainID string, height int64, round int64, ext []byte) []byte {
	var buf bytes.Buffer
	cve := cmtproto.CanonicalVoteExtension{Extension: ext, Height: height, Round: round, ChainId: chainID}
	if err := protoio.NewDelimitedWriter(&buf).WriteMsg(&cve); err != nil {
		panic(err)
	}
	return buf.Bytes()
}

func sameQuote(a, b struct {
	found bool
	price string
	sec   int64
	nsec  int
	h     uint64
}) bool {
	return a == b
}

type quoteObs struct {
	found bool
	price string
	sec   int64
	nsec  int
	h     uint64
}

func (k *Keeper) quote(ctx sdk.Context, cp connecttypes.CurrencyPair) quoteObs {
	qp, err := k.l2OracleHandler.oracleKeeper.GetPriceForCurrencyPair(ctx, cp)
	if err != nil {
		return quoteObs{}
	}
	return quoteObs{true, qp.Price.String(), qp.BlockTimestamp.Unix(), qp.BlockTimestamp.Nanosecond(), qp.BlockHeight}
}

// C15 step: one oracle-update message from an arbitrary state.
func Harness_C15_UpdateOracle() {
	c15Bounds()
	k, ms, ctx := setup()
	req := &types.MsgUpdateOracle{Sender: verifSymStr("req.sender"), Height: verifSymU64("req.height"), Data: verifOpaqueBytes("req.data")}
	executor := k.isExecutor(ctx, req.Sender)
	info, infoErr := k.BridgeInfo.Get(ctx)
	lastH, lastErr := k.HostValidatorStore.GetLastHeight(ctx)
	verifAssume(lastErr != nil || lastH >= 0) // recorded heights are L1 block heights
	cp := connecttypes.CurrencyPair{Base: verifSymStr("obs.base"), Quote: verifSymStr("obs.quote")}
	q0 := k.quote(ctx, cp)
	qp0, qp0err := k.l2OracleHandler.oracleKeeper.GetPriceForCurrencyPair(ctx, cp)

	err, pan := runMsg(ctx, func(c sdk.Context) error { _, e := ms.UpdateOracle(c, req); return e })

	q1 := k.quote(ctx, cp)
	changed := q0 != q1
	if !ok(err, pan) {
		verifAssert("a failed oracle update changes no price", !changed)
		verifReach("rejected")
	}
	if ok(err, pan) {
		verifReach("accepted")
		verifAssert("oracle updates need a listed bridge executor", executor)
		verifAssert("oracle updates need the bridge's oracle flag", infoErr == nil && info.BridgeConfig.OracleEnabled)
		verifAssert("oracle updates need a recorded L1 validator set", lastErr == nil)
		if lastErr == nil {
			verifAssert("the update height is never older than the recorded validator set", req.Height < 1<<63 && int64(req.Height) >= lastH)
		}
		// the host validator set is not touched by an oracle update
		lastH2, lastErr2 := k.HostValidatorStore.GetLastHeight(ctx)
		verifAssert("an oracle update leaves the recorded validator set height", lastErr2 == nil && lastH2 == lastH)
		// signatures: every commit vote of a recorded validator was checked against that validator's key over
		// (L1 chain id, height-1, round, extension); other votes of recorded validators carry nothing
		commit, decoded := verifStubValue[cometabci.ExtendedCommitInfo]("ExtendedCommitCodec.Decode")
		verifAssert("an accepted update decoded the commit it was given", decoded)
		if decoded && infoErr == nil {
			for _, vote := range commit.Votes {
				hv, herr := k.HostValidatorStore.validators.Get(ctx, vote.Validator.Address)
				if herr != nil {
					continue // votes of unknown validators are ignored (the aggregator's store does not know them either)
				}
				if vote.BlockIdFlag == cmtproto.BlockIDFlagCommit {
					pkProto, perr := hv.CmtConsPublicKey()
					verifAssert("a recorded validator has a usable key", perr == nil)
					if perr != nil {
						continue
					}
					pk, kerr := cryptoenc.PubKeyFromProto(pkProto)
					verifAssert("a recorded validator has a usable key", kerr == nil)
					if kerr != nil {
						continue
					}
					msg := refSignBytes(info.L1ChainId, int64(req.Height)-1, int64(commit.Round), vote.VoteExtension)
					verifAssert("every commit vote of a recorded validator carries its valid signature over (chain id, height-1, round, extension)",
						pk.VerifySignature(msg, vote.ExtensionSignature))
				} else {
					verifAssert("non-commit votes carry no extension and no signature", len(vote.VoteExtension) == 0 && len(vote.ExtensionSignature) == 0)
				}
			}
			// what reaches the aggregator is exactly the validated commit
			votes, handed := verifStubValue[[]connectaggregator.Vote]("AggregateOracleVotes.votes")
			verifAssert("the validated votes are the ones aggregated", handed && len(votes) == len(commit.Votes))
			if handed && len(votes) == len(commit.Votes) {
				for i := range votes {
					verifAssert("the validated votes are the ones aggregated", bytes.Equal(votes[i].ConsAddress, commit.Votes[i].Validator.Address))
				}
			}
		}
		if changed {
			verifReach("price changed")
			verifAssert("a changed pair records the update", q1.found)
			if qp0err == nil && q1.found {
				qp1, _ := k.l2OracleHandler.oracleKeeper.GetPriceForCurrencyPair(ctx, cp)
				verifAssert("per currency pair the accepted timestamp strictly increases", qp1.BlockTimestamp.After(qp0.BlockTimestamp))
			}
		}
	}
}

// C15 host validator set: replaced only by a set for the configured, non-empty L1 client id and a strictly
// higher height; then it is exactly the new set with the new height. Otherwise nothing changes.
func Harness_C15_HostValidatorSet() {
	verifConfig("len:FeeWhitelist", 0)
	verifConfig("len:MinGasPrices", 0)
	verifConfig("len:BridgeExecutors", 1)
	verifConfig("len:UnbondingIds", 0)
	verifConfig("store:validators", 2)
	verifConfig("maxlen:Validators", 2)
	verifConfig("slack", 3)
	k, _, ctx := setup()
	clientID := verifSymStr("clientID")
	height := verifSymQty64("height")
	set := verifSym[cmtproto.ValidatorSet]("set")
	info, infoErr := k.BridgeInfo.Get(ctx)
	lastH, lastErr := k.HostValidatorStore.GetLastHeight(ctx)
	obs := verifOpaqueBytes("obs.consAddr")
	_, pre := k.HostValidatorStore.validators.Get(ctx, obs)
	n0 := len(mustVals(k, ctx))

	err, pan := runMsg(ctx, func(c sdk.Context) error { return k.UpdateHostValidatorSet(c, clientID, height, &set) })

	lastH1, lastErr1 := k.HostValidatorStore.GetLastHeight(ctx)
	_, post := k.HostValidatorStore.validators.Get(ctx, obs)
	newer := (lastErr != nil && height > 0) || (lastErr == nil && height > lastH) // an absent record counts as height 0
	replaced := (lastErr == nil) != (lastErr1 == nil) || lastH != lastH1 || (pre == nil) != (post == nil) || n0 != len(mustVals(k, ctx))
	if replaced {
		verifReach("replaced")
		verifAssert("only a successful update replaces the recorded set", ok(err, pan))
		verifAssert("the set is replaced only for a non-empty client id", clientID != "")
		verifAssert("the set is replaced only for the configured L1 client", infoErr == nil && info.L1ClientId == clientID)
		verifAssert("the set is replaced only by a higher height", newer)
		verifAssert("the new height is recorded", lastErr1 == nil && lastH1 == height)
		verifAssert("the recorded set is exactly the new set", len(mustVals(k, ctx)) <= len(set.Validators))
	} else {
		verifReach("unchanged")
	}
	if ok(err, pan) && infoErr == nil && clientID != "" && info.L1ClientId == clientID && newer {
		verifAssert("a newer set from the configured client is recorded", lastErr1 == nil && lastH1 == height)
		for i, v := range set.Validators {
			pk, perr := cryptocodec.FromCmtProtoPublicKey(v.PubKey)
			if perr != nil {
				continue
			}
			// a validator set names each key once; if a list repeats a key the last entry wins
			repeated := false
			for _, w := range set.Validators[i+1:] {
				if pk2, e2 := cryptocodec.FromCmtProtoPublicKey(w.PubKey); e2 == nil && pk2.Equals(pk) {
					repeated = true
				}
			}
			if repeated {
				continue
			}
			got, gerr := k.HostValidatorStore.validators.Get(ctx, sdk.ConsAddress(pk.Address()))
			verifAssert("every validator of the new set is recorded under its consensus address", gerr == nil)
			if gerr == nil {
				verifAssert("with its voting power", got.IsBonded() && got.Tokens.Equal(sdk.TokensFromConsensusPower(v.VotingPower, sdk.DefaultPowerReduction)))
			}
		}
	}
}

func mustVals(k *Keeper, ctx sdk.Context) []stakingtypes.Validator {
	vs, err := k.HostValidatorStore.GetAllValidators(ctx)
	if err != nil {
		panic(err)
	}
	return vs
}
