//go:build verif

package keeper

import (
	"strconv"

	sdk "github.com/cosmos/cosmos-sdk/types"

	"github.com/initia-labs/OPinit/x/opchild/types"
)

// C09 step: one InitiateTokenWithdrawal from an arbitrary state.
func Harness_C09_WithdrawStep() {
	verifConfig("len:FeeWhitelist", 0)
	verifConfig("len:MinGasPrices", 0)
	verifConfig("len:BridgeExecutors", 1)
	k, ms, ctx := setup()
	req := symWithdraw()
	D, A := req.Amount.Denom, req.Amount.Amount
	l2 := k.nextL2(ctx)
	verifAssume(l2 < 1<<62)
	sender, senderOK := k.addr(req.Sender)
	sup0 := k.sup(ctx, D)
	bal0 := sup0
	if senderOK {
		bal0 = k.bal(ctx, sender, D)
	}
	base0, baseErr0 := k.DenomPairs.Get(ctx, D)
	xs, dx := verifSymStr("acctX"), verifSymStr("denomX")
	verifAssume(sdk.ValidateDenom(dx) == nil) // only valid denoms can be held (the bank panics on others)
	x, xOK := k.addr(xs)
	verifAssume(xOK)
	balX0, supX0 := k.bal(ctx, x, dx), k.sup(ctx, dx)
	nEv := len(eventsOf(ctx, types.EventTypeInitiateTokenWithdrawal))
	next1 := k.nextL1(ctx)

	var res *types.MsgInitiateTokenWithdrawalResponse
	err, pan := runMsg(ctx, func(c sdk.Context) error {
		r, e := ms.InitiateTokenWithdrawal(c, req)
		res = r
		return e
	})
	verifAssert("withdrawal does not panic", !pan)
	if !ok(err, pan) {
		verifReach("withdrawal rejected")
		verifAssert("a rejected withdrawal burns nothing", k.sup(ctx, D).Equal(sup0))
		if senderOK {
			verifAssert("a rejected withdrawal takes nothing", k.bal(ctx, sender, D).Equal(bal0))
		}
		verifAssert("a rejected withdrawal consumes no sequence", k.nextL2(ctx) == l2)
		verifAssert("a rejected withdrawal emits nothing", len(eventsOf(ctx, types.EventTypeInitiateTokenWithdrawal)) == nEv)
		if baseErr0 != nil && senderOK && req.Validate(k.authKeeper.AddressCodec()) == nil {
			verifReach("non-L1 token refused")
		}
		return
	}
	verifReach("withdrawal accepted")
	verifAssert("tokens that did not come from L1 cannot be withdrawn", baseErr0 == nil)
	verifAssert("sender address valid", senderOK)
	verifAssert("amount is positive", A.IsPositive())
	verifAssert("amount does not exceed the balance", bal0.GTE(A))
	verifAssert("exactly the stated amount leaves the signer", k.bal(ctx, sender, D).Equal(bal0.Sub(A)))
	verifAssert("exactly the stated amount is burned", k.sup(ctx, D).Equal(sup0.Sub(A)))
	verifAssert("response carries the next L2 sequence", res.Sequence == l2)
	verifAssert("L2 sequence advances by one", k.nextL2(ctx) == l2+1)
	verifAssert("L1 sequence untouched", k.nextL1(ctx) == next1)
	q, qerr := NewQuerier(k).NextL2Sequence(ctx, &types.QueryNextL2SequenceRequest{})
	verifAssert("next-L2-sequence query returns the stored value", qerr == nil && q.NextL2Sequence == l2+1)
	evs := eventsOf(ctx, types.EventTypeInitiateTokenWithdrawal)
	verifAssert("exactly one withdrawal event", len(evs) == nEv+1)
	if len(evs) == nEv+1 {
		ev := evs[nEv]
		verifAssert("event: from", attrIs(ev, types.AttributeKeyFrom, req.Sender))
		verifAssert("event: to", attrIs(ev, types.AttributeKeyTo, req.To))
		verifAssert("event: denom", attrIs(ev, types.AttributeKeyDenom, D))
		verifAssert("event: base denom from the denom mapping", attrIs(ev, types.AttributeKeyBaseDenom, base0))
		verifAssert("event: exact amount", attrIs(ev, types.AttributeKeyAmount, A.String()))
		verifAssert("event: sequence", attrIs(ev, types.AttributeKeyL2Sequence, strconv.FormatUint(l2, 10)))
	}
	bq, bqerr := NewQuerier(k).BaseDenom(ctx, &types.QueryBaseDenomRequest{Denom: D})
	verifAssert("base-denom query returns the mapping", bqerr == nil && bq.BaseDenom == base0)
	// frame: nobody else's balance, no other denom
	moduleAcc := k.authKeeper.GetModuleAddress(types.ModuleName)
	verifAssume(string(sender) != string(moduleAcc)) // module accounts do not sign messages
	if !(string(x) == string(sender) && dx == D) && !(string(x) == string(moduleAcc)) {
		verifAssert("other accounts untouched", k.bal(ctx, x, dx).Equal(balX0))
	}
	if dx != D {
		verifAssert("other denoms' supply untouched", k.sup(ctx, dx).Equal(supX0))
	}
	if string(x) == string(moduleAcc) {
		verifAssert("module transit account nets to zero", k.bal(ctx, x, dx).Equal(balX0))
	}
}

// C09 frame: for every L2 message, supply of an arbitrary denom changes only by mint-on-credit and
// burn-on-withdrawal, a present denom mapping never changes, and the L2 sequence moves by one per recorded
// withdrawal (refunds and user withdrawals share the counter).
func Harness_C09_SupplyAndMappingFrame() {
	stdBounds()
	// the mint and the transfer to the recipient may fail or panic (recipient-side logic): supply conservation
	// must hold on those paths too
	verifConfig("fault:MintCoins", 1)
	verifConfig("fault:SendCoinsFromModuleToAccount", 1)
	k, ms, ctx := setup()
	d := verifSymStr("obsDenom")
	verifAssume(sdk.ValidateDenom(d) == nil) // only valid denoms have a supply (the bank panics on others)
	sup0 := k.sup(ctx, d)
	base0, baseErr0 := k.DenomPairs.Get(ctx, d)
	l2 := k.nextL2(ctx)
	verifAssume(l2 < 1<<62 && k.nextL1(ctx) < 1<<62)
	nW := len(eventsOf(ctx, types.EventTypeInitiateTokenWithdrawal))
	st := newStep(ms)
	verifAssume(st.which != mExecuteMessages && st.which != mUpdateOracle) // stub-routed inner messages / oracle: C12, C15
	st.run(ctx)
	sup1 := k.sup(ctx, d)
	base1, baseErr1 := k.DenomPairs.Get(ctx, d)
	if baseErr0 == nil {
		verifAssert("a denom mapping, once set, never changes", baseErr1 == nil && base1 == base0)
	} else if baseErr1 == nil {
		verifReach("mapping set")
		verifAssert("a mapping is set only by a processed deposit of that denom", st.ok() && st.which == mFinalizeDeposit && st.depRes == types.SUCCESS && st.deposit.Amount.Denom == d && base1 == st.deposit.BaseDenom)
	}
	nW1 := len(eventsOf(ctx, types.EventTypeInitiateTokenWithdrawal))
	verifAssert("the L2 sequence advances once per recorded withdrawal", k.nextL2(ctx) == l2+uint64(nW1-nW))
	// every recorded withdrawal — user-initiated or the refund of a failed deposit — is announced with the L1
	// base denom of the denom mapping (which never changes once set, see above)
	for _, ev := range eventsOf(ctx, types.EventTypeInitiateTokenWithdrawal)[nW:] {
		dn, _ := attr(ev, types.AttributeKeyDenom)
		mapped, merr := k.DenomPairs.Get(ctx, dn)
		if merr == nil {
			verifAssert("a recorded withdrawal is announced with the mapped L1 base denom", attrIs(ev, types.AttributeKeyBaseDenom, mapped))
		} else {
			verifAssert("only the refund of a first deposit precedes the mapping, and it names the deposit's base denom",
				st.which == mFinalizeDeposit && attrIs(ev, types.AttributeKeyBaseDenom, st.deposit.BaseDenom))
		}
	}
	switch {
	case st.ok() && st.which == mWithdraw && st.withdraw.Amount.Denom == d:
		verifAssert("withdrawal burns exactly the amount", sup1.Equal(sup0.Sub(st.withdraw.Amount.Amount)))
	case st.ok() && st.which == mFinalizeDeposit && st.depRes == types.SUCCESS && st.deposit.Amount.Denom == d:
		if nW1 == nW {
			verifAssert("credited deposit mints exactly the amount", sup1.Equal(sup0.Add(st.deposit.Amount.Amount)))
		} else {
			verifAssert("refunded deposit mints nothing", sup1.Equal(sup0))
		}
	default:
		verifAssert("supply changes only through credited deposits and withdrawals", sup1.Equal(sup0))
	}
}

// C09 / C04: a withdrawal initiated from inside a deposit hook (hook payloads are ordinary signed transactions and
// may carry the module's own messages) is a recorded withdrawal like any other: the L2 sequence it consumes is
// announced by exactly one withdrawal event in the transaction, so that it can be proven on L1.
func Harness_C09_WithdrawalInsideHook() {
	paramsBounds()
	verifConfig("len:BridgeExecutors", 1)
	verifConfig("hook.clean", 1) // bound: the hook transaction decodes, passes the ante chain; its first message is the withdrawal,
	verifConfig("hookmsgs", 2)   // followed by one arbitrary message of another module (which may fail, panic, run out of gas)
	k, ms, ctx := setup()
	req := symFinalizeDeposit()
	wd := &types.MsgInitiateTokenWithdrawal{Sender: verifSymStr("wd.sender"), To: verifSymStr("wd.to"),
		Amount: sdk.Coin{Denom: verifSymStr("wd.denom"), Amount: verifSymInt("wd.amount")}}
	verifOnRoute(wd, routed(func(c sdk.Context) error { _, err := ms.InitiateTokenWithdrawal(c, wd); return err }))
	next, l2 := k.nextL1(ctx), k.nextL2(ctx)
	verifAssume(next < 1<<62 && l2 < 1<<62)
	verifAssume(req.Sequence == next && k.isExecutor(ctx, req.Sender))
	verifAssume(req.Validate(k.authKeeper.AddressCodec()) == nil && wd.Validate(k.authKeeper.AddressCodec()) == nil)
	_, toOK := k.addr(req.To)
	verifAssume(toOK && req.Amount.Amount.IsPositive())
	nW := len(eventsOf(ctx, types.EventTypeInitiateTokenWithdrawal))
	err, pan := runMsg(ctx, func(c sdk.Context) error { _, e := ms.FinalizeTokenDeposit(c, req); return e })
	if !ok(err, pan) {
		return
	}
	verifReach("deposit with hook processed")
	evs := eventsOf(ctx, types.EventTypeInitiateTokenWithdrawal)[nW:]
	l2b := k.nextL2(ctx)
	verifNote("finalize events", eventsOf(ctx, types.EventTypeFinalizeTokenDeposit))
	verifNote("withdrawal events", evs)
	verifNote("L2 sequences consumed", l2b-l2)
	if l2b > l2 {
		verifReach("a withdrawal was recorded")
	}
	verifAssert("every L2 sequence consumed in the transaction is announced by one withdrawal event", l2b == l2+uint64(len(evs)))
}
