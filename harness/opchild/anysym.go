//go:build verif

package keeper

import codectypes "github.com/cosmos/cosmos-sdk/codec/types"

func verifSymAny(name string) *codectypes.Any { return verifSym[*codectypes.Any](name) }
