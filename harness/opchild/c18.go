//go:build verif

package keeper

import (
	storetypes "cosmossdk.io/store/types"
	sdk "github.com/cosmos/cosmos-sdk/types"
)

// C18 (determinism) by self-composition: the same step is executed twice from the same pre-state, on two
// independent forks of it. Everything the engine treats as a runtime oracle — the iteration order of every
// Go map range, time.Now, random sources — gets an independent copy of its symbols in each execution, so an
// observable that depends on one of them differs between the two runs for some choice and the solver
// finds it. Observables: panic/no panic, the error, the response, the event list in order, every store
// cell and bank ledger.

type run18 struct {
	err  error
	pan  bool
	resp any
	ctx  sdk.Context
}

// each execution runs on a goroutine of its own (natively; symbolically the call is sequential): per-goroutine and
// per-process runtime data that leaks into state or events differs between the two, as it would between nodes
func exec18(ctx sdk.Context, fn func(c sdk.Context) (any, error)) (r run18) {
	verifGo(func() { r = exec18on(ctx, fn) })
	return
}

func exec18on(ctx sdk.Context, fn func(c sdk.Context) (any, error)) (r run18) {
	r.ctx, _ = ctx.CacheContext()
	// each execution gets its own gas meter (a cache context shares its parent's)
	r.ctx = r.ctx.WithGasMeter(storetypes.NewInfiniteGasMeter())
	defer func() {
		if rec := recover(); rec != nil {
			r.pan = true
		}
	}()
	r.resp, r.err = fn(r.ctx)
	return
}

// twice18: the two executions, with the same environment answers (stub outcomes, decoded values) in both
func twice18(ctx sdk.Context, fn func(c sdk.Context) (any, error)) {
	verifEnvBegin()
	a := exec18(ctx, fn)
	// symbolically one second execution (the solver ranges over every pair of oracle choices); natively the
	// second execution is repeated, because Go picks a random iteration order per run
	for i := 0; i < verifRepeat(); i++ {
		verifEnvReplay()
		b := exec18(ctx, fn)
		same18(a, b)
	}
	verifEnvEnd()
}

func same18(a, b run18) {
	verifAssert("both executions panic or neither does", a.pan == b.pan)
	if a.pan || b.pan {
		return
	}
	verifAssert("identical errors", verifDeepEq(a.err, b.err))
	verifAssert("identical responses", verifDeepEq(a.resp, b.resp))
	verifAssert("identical events in identical order", verifSameEvents(a.ctx, b.ctx))
	verifAssert("identical module state", verifSameState(a.ctx, b.ctx))
	verifReach("compared")
}

// every L2 message
func Harness_C18_L2_MsgStep() {
	stdBounds()
	verifConfig("maporder", 1)
	_, ms, ctx := setup()
	st := newStep(ms)
	verifAssume(st.which != mUpdateOracle) // decoded by connect's codecs (stubs of C15); its gating is C15's subject
	fn := func(c sdk.Context) (any, error) {
		st.resp = nil
		e := st.fn(c)
		return st.resp, e
	}
	twice18(ctx, fn)
}

// a deposit whose hook transaction carries two messages of other modules: what the hook does may depend on the
// deposit, the state and the handlers' outcomes, never on the node executing it (wall clock, scheduling)
func Harness_C18_L2_HookStep() {
	paramsBounds()
	verifConfig("len:BridgeExecutors", 1)
	verifConfig("maporder", 1)
	verifConfig("hook.clean", 1) // bound: the hook transaction decodes and passes the ante chain
	verifConfig("hookmsgs", 2)
	k, ms, ctx := setup()
	req := symFinalizeDeposit()
	verifAssume(req.Sequence == k.nextL1(ctx) && k.isExecutor(ctx, req.Sender))
	verifAssume(req.Validate(k.authKeeper.AddressCodec()) == nil && req.Amount.Amount.IsPositive())
	fn := func(c sdk.Context) (any, error) { return ms.FinalizeTokenDeposit(c, req) }
	twice18(ctx, fn)
}

// end of block: the validator updates handed to consensus, in order
func Harness_C18_L2_BlockValidatorUpdates() {
	c13Bounds()
	verifConfig("maporder", 1)
	k, _, ctx := setup()
	verifAssume(invValidators(ctx, k))
	fn := func(c sdk.Context) (any, error) { return k.BlockValidatorUpdates(c) }
	twice18(ctx, fn)
}

// begin of block: historical info tracking
func Harness_C18_L2_TrackHistoricalInfo() {
	c13Bounds()
	verifConfig("maporder", 1)
	verifConfig("store:HistoricalInfos", 1)
	verifConfig("len:Valset", 0) // contents of older entries are irrelevant here
	k, _, ctx := setup()
	verifAssume(invValidators(ctx, k))
	fn := func(c sdk.Context) (any, error) { return nil, k.TrackHistoricalInfo(c) }
	twice18(ctx, fn)
}

// genesis export: same state, same exported genesis
func Harness_C18_L2_ExportGenesis() {
	c13Bounds()
	verifConfig("maporder", 1)
	verifConfig("store:DenomPairs", 2)
	k, _, ctx := setup()
	verifAssume(invValidators(ctx, k))
	fn := func(c sdk.Context) (any, error) { return k.ExportGenesis(c), nil }
	twice18(ctx, fn)
}
