//go:build verif

package keeper

import (
	"context"
	"cosmossdk.io/math"
	sdk "github.com/cosmos/cosmos-sdk/types"

	"github.com/initia-labs/OPinit/x/opchild/types"
)

// setup: an opchild keeper over an arbitrary pre-state and an arbitrary block context.
func setup() (*Keeper, *MsgServer, sdk.Context) {
	k := verifSym[Keeper]("k")
	ctx := verifSym[sdk.Context]("ctx")
	assumeInv(ctx, &k)
	return &k, NewMsgServerImpl(&k), ctx
}

// assumeInv (Appendix A, P1): parameters are present and pass their own validation.
func assumeInv(ctx sdk.Context, k *Keeper) {
	p, err := k.Params.Get(ctx)
	verifAssume(err == nil)
	verifAssume(p.Validate(k.authKeeper.AddressCodec()) == nil)
}

// runMsg: baseapp-style atomic execution (cache; commit on success; discard on error or panic).
func runMsg(ctx sdk.Context, fn func(ctx sdk.Context) error) (err error, panicked bool) {
	cc, write := ctx.CacheContext()
	defer func() {
		if r := recover(); r != nil {
			verifNote("handler panic", r)
			panicked = true
		}
	}()
	err = fn(cc)
	verifNote("handler error", err)
	if err == nil {
		write()
	}
	return
}

func ok(err error, panicked bool) bool { return err == nil && !panicked }

func (k *Keeper) bal(ctx sdk.Context, addr sdk.AccAddress, denom string) math.Int {
	return k.bankKeeper.GetBalance(ctx, addr, denom).Amount
}

func (k *Keeper) sup(ctx sdk.Context, denom string) math.Int {
	return k.bankKeeper.GetSupply(ctx, denom).Amount
}

func (k *Keeper) addr(s string) (sdk.AccAddress, bool) {
	a, err := k.authKeeper.AddressCodec().StringToBytes(s)
	return a, err == nil
}

func (k *Keeper) nextL1(ctx sdk.Context) uint64 {
	n, err := k.GetNextL1Sequence(ctx)
	if err != nil {
		panic(err)
	}
	return n
}

func (k *Keeper) nextL2(ctx sdk.Context) uint64 {
	n, err := k.GetNextL2Sequence(ctx)
	if err != nil {
		panic(err)
	}
	return n
}

func (k *Keeper) isExecutor(ctx sdk.Context, s string) bool {
	p, err := k.GetParams(ctx)
	if err != nil {
		return false
	}
	a, aok := k.addr(s)
	if !aok {
		return false
	}
	for _, be := range p.BridgeExecutors {
		b, bok := k.addr(be)
		if bok && string(a) == string(b) {
			return true
		}
	}
	return false
}

func eventsOf(ctx sdk.Context, typ string) []sdk.Event {
	var out []sdk.Event
	for _, ev := range ctx.EventManager().Events() {
		if ev.Type == typ {
			out = append(out, ev)
		}
	}
	return out
}

func attr(ev sdk.Event, key string) (string, bool) {
	for _, a := range ev.Attributes {
		if a.Key == key {
			return a.Value, true
		}
	}
	return "", false
}

func attrIs(ev sdk.Event, key, want string) bool {
	v, found := attr(ev, key)
	return found && v == want
}

func symFinalizeDeposit() *types.MsgFinalizeTokenDeposit {
	return &types.MsgFinalizeTokenDeposit{
		Sender:    verifSymStr("req.sender"),
		From:      verifSymStr("req.from"),
		To:        verifSymStr("req.to"),
		Amount:    sdk.Coin{Denom: verifSymStr("req.denom"), Amount: verifSymInt("req.amount")},
		Sequence:  verifSymU64("req.sequence"),
		Height:    verifSymU64("req.height"),
		BaseDenom: verifSymStr("req.baseDenom"),
		Data:      verifOpaqueBytes("req.data"),
	}
}

// routed: what baseapp's MsgServiceRouter does around a module handler (read from the pinned SDK,
// baseapp/msg_service_router.go): the handler runs on a FRESH event manager, and the events it emitted come back
// in the Result — they reach the caller's context only if the caller forwards them.
func routed(h func(c sdk.Context) error) func(c context.Context, m sdk.Msg) (*sdk.Result, error) {
	return func(c context.Context, m sdk.Msg) (*sdk.Result, error) {
		inner := sdk.UnwrapSDKContext(c).WithEventManager(sdk.NewEventManager())
		if err := h(inner); err != nil {
			return nil, err
		}
		return &sdk.Result{Events: inner.EventManager().ABCIEvents()}, nil
	}
}
