//go:build verif

package keeper

import (
	"bytes"

	sdk "github.com/cosmos/cosmos-sdk/types"

	"github.com/initia-labs/OPinit/x/opchild/types"
)

// C12 (L2 half): permissioned L2 messages succeed only for a signer that holds an allowed role in the
// pre-state; parameter changes (executors, admin) are stored as requested, so the next message sees them.
func Harness_C12_L2_Auth() {
	stdBounds()
	k, ms, ctx := setup()
	st := newStep(ms)
	verifAssume(st.which != mWithdraw && st.which != mExecuteMessages && st.which != mUpdateOracle) // permissionless / own harnesses
	params, _ := k.GetParams(ctx)
	gov := k.authority
	isExec := k.isExecutor(ctx, st.signer)
	st.run(ctx)
	if !st.ok() {
		verifReach("rejected")
		return
	}
	verifReach("accepted")
	switch st.which {
	case mAddValidator, mRemoveValidator, mUpdateParams, mSpendFeePool:
		verifAssert("validator/param/fee-pool messages need the module authority", st.signer == gov)
	case mFinalizeDeposit, mSetBridgeInfo:
		verifAssert("deposit finalization and bridge-info updates need a listed bridge executor", isExec)
	}
	if st.which == mUpdateParams {
		post, _ := k.GetParams(ctx)
		verifAssert("new admin takes effect immediately", post.Admin == st.params.Admin)
		verifAssert("new executor list takes effect immediately", sameStrings(post.BridgeExecutors, st.params.BridgeExecutors))
	} else {
		post, _ := k.GetParams(ctx)
		verifAssert("roles change only through parameter updates", post.Admin == params.Admin && sameStrings(post.BridgeExecutors, params.BridgeExecutors))
	}
}

func sameStrings(a, b []string) bool {
	if len(a) != len(b) {
		return false
	}
	for i := range a {
		if a[i] != b[i] {
			return false
		}
	}
	return true
}

// C12: batched execution needs the admin and only carries messages whose sole signer is the module authority.
func Harness_C12_L2_ExecuteMessages() {
	verifConfig("len:FeeWhitelist", 0)
	verifConfig("len:MinGasPrices", 0)
	verifConfig("len:BridgeExecutors", 1)
	k, ms, ctx := setup()
	st := newStep(ms)
	verifAssume(st.which == mExecuteMessages)
	params, _ := k.GetParams(ctx)
	authority, aerr := k.authKeeper.AddressCodec().StringToBytes(k.authority)
	verifAssume(aerr == nil)
	xs, dx := verifSymStr("acctX"), verifSymStr("denomX")
	verifAssume(sdk.ValidateDenom(dx) == nil) // only valid denoms can be held (the bank panics on others)
	x, xOK := k.addr(xs)
	verifAssume(xOK)
	balX0 := k.bal(ctx, x, dx)
	st.run(ctx)
	if !st.ok() {
		verifReach("batch rejected")
		verifAssert("a rejected batch leaves nothing behind (all-or-nothing)", k.bal(ctx, x, dx).Equal(balX0))
		return
	}
	verifReach("batch accepted")
	verifAssert("batched execution needs the admin", st.exec.Sender == params.Admin)
	msgs, gerr := st.exec.GetMsgs()
	verifAssert("inner messages decode", gerr == nil)
	for _, m := range msgs {
		signers, _, serr := k.cdc.GetMsgV1Signers(m)
		verifAssert("inner message has a signer set", serr == nil)
		verifAssert("inner message has exactly one signer", len(signers) == 1)
		if len(signers) == 1 {
			verifAssert("the sole signer of an inner message is the module authority", bytes.Equal(signers[0], authority))
		}
	}
}

// C12: the L2's binding to its bridge can never be re-pointed.
func Harness_C12_L2_BridgeBinding() {
	stdBounds()
	k, ms, ctx := setup()
	info, ierr := k.BridgeInfo.Get(ctx)
	st := newStep(ms)
	verifAssume(st.which != mExecuteMessages && st.which != mUpdateOracle)
	st.run(ctx)
	post, perr := k.BridgeInfo.Get(ctx)
	if ierr == nil {
		verifAssert("the bridge binding is never removed", perr == nil)
		verifAssert("bridge id can never be re-pointed", post.BridgeId == info.BridgeId)
		verifAssert("bridge address can never be re-pointed", post.BridgeAddr == info.BridgeAddr)
		verifAssert("L1 chain id can never be re-pointed", post.L1ChainId == info.L1ChainId)
		if info.L1ClientId != "" {
			verifAssert("L1 client id, once set, can never be re-pointed", post.L1ClientId == info.L1ClientId)
		}
		if !sameInfo(info, post) {
			verifAssert("bridge info changes only through a successful SetBridgeInfo", st.ok() && st.which == mSetBridgeInfo)
		}
	} else if perr == nil {
		verifReach("binding created")
		verifAssert("the binding is created only by a successful SetBridgeInfo", st.ok() && st.which == mSetBridgeInfo)
		verifAssert("the stored binding is the requested one", post.BridgeId == st.info.BridgeId && post.BridgeAddr == st.info.BridgeAddr && post.L1ChainId == st.info.L1ChainId && post.L1ClientId == st.info.L1ClientId)
	}
}

func sameInfo(a, b types.BridgeInfo) bool {
	return a.BridgeId == b.BridgeId && a.BridgeAddr == b.BridgeAddr && a.L1ChainId == b.L1ChainId && a.L1ClientId == b.L1ClientId &&
		a.BridgeConfig.Proposer == b.BridgeConfig.Proposer && a.BridgeConfig.Challenger == b.BridgeConfig.Challenger &&
		a.BridgeConfig.OracleEnabled == b.BridgeConfig.OracleEnabled && a.BridgeConfig.FinalizationPeriod == b.BridgeConfig.FinalizationPeriod &&
		a.BridgeConfig.SubmissionInterval == b.BridgeConfig.SubmissionInterval && a.BridgeConfig.SubmissionStartHeight == b.BridgeConfig.SubmissionStartHeight &&
		a.BridgeConfig.BatchInfo == b.BridgeConfig.BatchInfo && string(a.BridgeConfig.Metadata) == string(b.BridgeConfig.Metadata)
}

var _ = sdk.AccAddress{}
