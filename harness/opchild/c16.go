//go:build verif

package keeper

import (
	sdk "github.com/cosmos/cosmos-sdk/types"

	"github.com/initia-labs/OPinit/x/opchild/types"
)

// buildL2State: an end-of-block opchild state constructed through the keeper's own setters on an empty chain.
func buildL2State(ctx sdk.Context, k *Keeper) {
	must := func(err error) {
		if err != nil {
			panic(err)
		}
	}
	m := 1
	if verifThorough() {
		m = 2
	}
	p := verifSym[types.Params]("st.params")
	verifAssume(p.Validate(k.authKeeper.AddressCodec()) == nil)
	nv := verifSymLen("shape.validators", 0, 2)
	verifAssume(int(p.MaxValidators) >= nv)
	must(k.Params.Set(ctx, p))
	var keys []cmtPK
	var ops []string
	for i := 0; i < nv; i++ {
		v := types.Validator{Moniker: verifSymStr("st.val.moniker"), OperatorAddress: verifSymStr("st.val.operator"),
			ConsensusPubkey: verifSymAny("st.val.pubkey"), ConsPower: verifSymQty64("st.val.power")}
		op, err := k.validatorAddressCodec.StringToBytes(v.OperatorAddress)
		verifAssume(err == nil && v.ConsPower > 0 && v.ConsPower < 1<<40)
		for j := range keys {
			verifAssume(!pkEq(keys[j], tmKey(v)) && ops[j] != v.OperatorAddress)
		}
		keys, ops = append(keys, tmKey(v)), append(ops, v.OperatorAddress)
		last := v.ConsPower // what consensus was told at the end of the previous block
		if verifChoice("shape.removedThisBlock", 2) == 1 {
			v.ConsPower = 0 // removed by a message of the current block: the record is zeroed, the bonded set is not yet
		}
		must(k.SetValidator(ctx, v))
		must(k.SetValidatorByConsAddr(ctx, v))
		must(k.SetLastValidatorPower(ctx, op, last))
	}
	if verifChoice("shape.hasL1Seq", 2) == 1 {
		s := verifSymU64("st.nextL1")
		verifAssume(s >= 1)
		must(k.SetNextL1Sequence(ctx, s))
	}
	if verifChoice("shape.hasL2Seq", 2) == 1 {
		s := verifSymU64("st.nextL2")
		verifAssume(s >= 1)
		must(k.SetNextL2Sequence(ctx, s))
	}
	if verifChoice("shape.hasBridgeInfo", 2) == 1 {
		info := verifSym[types.BridgeInfo]("st.info")
		verifAssume(info.Validate(k.authKeeper.AddressCodec()) == nil)
		must(k.BridgeInfo.Set(ctx, info))
	}
	nd := verifSymLen("shape.denomPairs", 0, m)
	for i := 0; i < nd; i++ {
		d, b := verifSymStr("st.pair.denom"), verifSymStr("st.pair.base")
		verifAssume(sdk.ValidateDenom(d) == nil)
		must(k.DenomPairs.Set(ctx, d, b))
	}
}

func sameValidator(a, b types.Validator) bool {
	return a.Moniker == b.Moniker && a.OperatorAddress == b.OperatorAddress && a.ConsPower == b.ConsPower && a.ConsensusPubkey.Equal(b.ConsensusPubkey)
}

func sameL2Genesis(a, b *types.GenesisState) bool {
	if a.NextL1Sequence != b.NextL1Sequence || a.NextL2Sequence != b.NextL2Sequence || a.Exported != b.Exported {
		return false
	}
	if a.Params.Admin != b.Params.Admin || a.Params.MaxValidators != b.Params.MaxValidators || a.Params.HistoricalEntries != b.Params.HistoricalEntries ||
		a.Params.HookMaxGas != b.Params.HookMaxGas || !sameStrings(a.Params.BridgeExecutors, b.Params.BridgeExecutors) || !sameStrings(a.Params.FeeWhitelist, b.Params.FeeWhitelist) {
		return false
	}
	if len(a.Validators) != len(b.Validators) || len(a.LastValidatorPowers) != len(b.LastValidatorPowers) || len(a.DenomPairs) != len(b.DenomPairs) {
		return false
	}
	for i := range a.Validators {
		if !sameValidator(a.Validators[i], b.Validators[i]) {
			return false
		}
	}
	for i := range a.LastValidatorPowers {
		if a.LastValidatorPowers[i] != b.LastValidatorPowers[i] {
			return false
		}
	}
	for i := range a.DenomPairs {
		if a.DenomPairs[i] != b.DenomPairs[i] {
			return false
		}
	}
	if (a.BridgeInfo == nil) != (b.BridgeInfo == nil) {
		return false
	}
	if a.BridgeInfo != nil && !sameInfo(*a.BridgeInfo, *b.BridgeInfo) {
		return false
	}
	return true
}

// C16 (L2): export -> validate -> init on a fresh chain -> export is the identity; the initial validator updates
// describe exactly the bonded set.
func Harness_C16_L2_RoundTrip() {
	verifConfig("emptystate", 1)
	verifConfig("nolimit", 1)
	verifConfig("len:FeeWhitelist", 0)
	verifConfig("len:MinGasPrices", 0)
	verifConfig("maxlen:BridgeExecutors", 1)
	k := verifSym[Keeper]("k")
	ctx := verifSym[sdk.Context]("ctx")
	buildL2State(ctx, &k)
	gs := k.ExportGenesis(ctx)
	verifAssert("an exported genesis passes the module's own validation", types.ValidateGenesis(gs, k.authKeeper.AddressCodec()) == nil)
	ctx2 := verifFreshChain(ctx)
	var told []cometVal
	pan := false
	func() {
		defer func() {
			if r := recover(); r != nil {
				pan = true
			}
		}()
		for _, u := range k.InitGenesis(ctx2, gs) {
			told = append(told, cometVal{u.PubKey, u.Power})
		}
	}()
	verifAssert("an exported genesis initialises a fresh chain without panic", !pan)
	if pan {
		return
	}
	verifReach("round trip")
	gs2 := k.ExportGenesis(ctx2)
	verifAssert("L2 state survives export/import unchanged", sameL2Genesis(gs, gs2))
	ghost, gok := k.ghostOf(ctx)
	verifAssert("initial validator updates describe exactly the bonded set", gok && sameSet(told, ghost))
	d := verifSymStr("obsDenom")
	b1, e1 := k.DenomPairs.Get(ctx, d)
	b2, e2 := k.DenomPairs.Get(ctx2, d)
	verifAssert("denom mappings answer identically", (e1 == nil) == (e2 == nil) && b1 == b2)
	verifAssert("sequences answer identically", k.nextL1(ctx) == k.nextL1(ctx2) && k.nextL2(ctx) == k.nextL2(ctx2))
}
