package main

import (
	"fmt"
	"go/types"
	"strings"
)

// ---------- modelled chain state ----------

type Entry struct {
	Key     []*Term
	KeyV    Value
	Present bool
	Val     Value
}

type Store struct {
	Name    string
	Closed  bool
	Inited  bool
	Entries []*Entry
}

type State struct {
	Stores map[string]*Store
	Bal    *Term // (Array Bytes (Array Str Int))
	Sup    *Term // (Array Str Int)
	Acc    *Term // (Array Bytes Bool)
	Meta   *Term // (Array Str Bool) denom metadata present
	MetaB  *Term // (Array Str Str) metadata base denom
	MetaD  *Term // (Array Str Str) metadata display denom
	Ghost  map[string]Value
	Perm   map[string]*Term
	Empty  bool // a fresh chain: every store closed and empty, bank ledgers zero
	Init   *InitOracle
	Prefix string // names of a second chain's initial symbols / store records (joint harnesses): "L1/"
}

// InitOracle: the (arbitrary but fixed) pre-state of open-world stores, shared by every fork of one chain
// state. A key first read in a cache that is later discarded — or read independently in two forks of the
// same state (self-composition, C18) — materialises to the same initial presence/value everywhere.
type InitOracle struct {
	m      map[string][]*Entry // open-world stores: keys read so far
	closed map[string][]*Entry // closed-world stores: the complete initial content
	bank   []*Term             // initial bank/auth ledgers, once named
}

var (
	balSort  = Sort{K: SUn, Name: "(Array Bytes (Array Str Int))"}
	supSort  = Sort{K: SUn, Name: "(Array Str Int)"}
	accSort  = Sort{K: SUn, Name: "(Array Bytes Bool)"}
	metaSort = Sort{K: SUn, Name: "(Array Str Bool)"}
	strMapSort = Sort{K: SUn, Name: "(Array Str Str)"}
	rowSort  = supSort
)

func newState() *State {
	return &State{Stores: map[string]*Store{}, Ghost: map[string]Value{}, Perm: map[string]*Term{}, Init: &InitOracle{m: map[string][]*Entry{}, closed: map[string][]*Entry{}}}
}

func (s *State) clone() *State {
	n := &State{Stores: map[string]*Store{}, Bal: s.Bal, Sup: s.Sup, Acc: s.Acc, Meta: s.Meta, MetaB: s.MetaB, MetaD: s.MetaD, Ghost: map[string]Value{}, Perm: map[string]*Term{}, Empty: s.Empty, Init: s.Init, Prefix: s.Prefix}
	for k, st := range s.Stores {
		ns := &Store{Name: st.Name, Closed: st.Closed, Inited: st.Inited}
		for _, en := range st.Entries {
			ns.Entries = append(ns.Entries, &Entry{Key: en.Key, KeyV: en.KeyV, Present: en.Present, Val: deepCopy(en.Val)})
		}
		n.Stores[k] = ns
	}
	for k, v := range s.Ghost {
		n.Ghost[k] = deepCopy(v)
	}
	for k, v := range s.Perm {
		n.Perm[k] = v
	}
	return n
}

func (s *State) assign(o *State) {
	s.MetaB, s.MetaD = o.MetaB, o.MetaD
	s.Stores, s.Bal, s.Sup, s.Acc, s.Meta, s.Ghost, s.Perm, s.Empty, s.Init, s.Prefix = o.Stores, o.Bal, o.Sup, o.Acc, o.Meta, o.Ghost, o.Perm, o.Empty, o.Init, o.Prefix
}

// ---------- context ----------

type EventMgr struct{ Events []Value }

type CtxV struct {
	St        *State
	Em        *EventMgr
	Gas       Value // storetypes.GasMeter interface value
	Time      TimeV
	Height    *Term // BV64 (int64)
	CheckTx   *Term
	ReCheckTx *Term
	ExecMode  *Term
	ChainID   *Term
	MinGas    Value
	ConsParam Value
	Header    Value
	TxBytes   Value
}

func (c *CtxV) copy() *CtxV { n := *c; return &n }

func (e *Exec) symTime(name string) TimeV {
	sec := e.fresh(name+".sec", IntSort)
	ns := e.fresh(name+".nsec", IntSort)
	// protobuf Timestamp range: 0001-01-01 .. 9999-12-31
	e.assertPC(And(IGe(sec, IntI(-62135596800)), ILe(sec, IntI(253402300799)), IGe(ns, IntI(0)), ILt(ns, IntI(1000000000))))
	return TimeV{Sec: sec, Nsec: ns}
}

func (e *Exec) symTimeOracle(name string) TimeV { return e.symTime(name) }

func ctxOf(e *Exec, v Value) *CtxV {
	if iv, ok := v.(IfaceV); ok {
		v = iv.V
	}
	c, ok := v.(*CtxV)
	if !ok {
		e.unsupported(fmt.Sprintf("expected sdk.Context, got %T", v))
	}
	return c
}

// ---------- collections ----------

type CollV struct {
	Name string
	Kind string // map | item | seq
	KT   types.Type
	VT   types.Type
}

func namedOrigin(t types.Type) string {
	if n, ok := t.(*types.Named); ok {
		o := n.Origin().Obj()
		if o.Pkg() != nil {
			return o.Pkg().Path() + "." + o.Name()
		}
		return o.Name()
	}
	return ""
}

func (e *Exec) storeOf(c *CtxV, coll *CollV) *Store {
	st, ok := c.St.Stores[coll.Name]
	if !ok {
		st = &Store{Name: coll.Name}
		c.St.Stores[coll.Name] = st
	}
	if !st.Inited {
		st.Inited = true
		if c.St.Empty {
			st.Closed = true
			st.Entries = nil
		} else if n, ok := e.cfg.Stores[coll.Name]; ok {
			st.Closed = true
			if init, seen := c.St.Init.closed[coll.Name]; seen {
				// another fork of this chain state already fixed the initial content
				for _, en := range init {
					st.Entries = append(st.Entries, &Entry{Key: en.Key, KeyV: en.KeyV, Present: en.Present, Val: deepCopy(en.Val)})
				}
			} else {
				e.initClosedP(st, coll, n, c.St.Prefix)
				var init []*Entry
				for _, en := range st.Entries {
					init = append(init, &Entry{Key: en.Key, KeyV: en.KeyV, Present: en.Present, Val: deepCopy(en.Val)})
				}
				c.St.Init.closed[coll.Name] = init
			}
		} else if e.cfg.Opts["emptystate"] == 1 {
			st.Closed = true
		}
	}
	return st
}

// initClosed: the store holds exactly m ≤ n entries with strictly increasing symbolic keys
func (e *Exec) initClosed(st *Store, coll *CollV, n int) { e.initClosedP(st, coll, n, "") }

func (e *Exec) initClosedP(st *Store, coll *CollV, n int, prefix string) {
	tag := e.fresh("st."+prefix+coll.Name+".count", IntSort)
	alts := make([]*Term, n+1)
	for i := range alts {
		alts[i] = Eq(tag, IntI(int64(i)))
	}
	if n > 0 {
		alts[n] = Not(Or(alts[:n]...))
	} else {
		alts[0] = True
	}
	m := e.decide(alts)
	e.assertPC(Eq(tag, IntI(int64(m))))
	for i := 0; i < m; i++ {
		name := fmt.Sprintf("st.%s%s[%d]", prefix, coll.Name, i)
		var kv Value
		var key []*Term
		if coll.Kind == "map" {
			kv = e.symValue(coll.KT, name+".key")
			key = e.flattenKey(kv)
		}
		val := e.symValue(coll.VT, name)
		en := &Entry{Key: key, KeyV: kv, Present: true, Val: val}
		e.inits = append(e.inits, initRec{Coll: prefix + coll.Name, Key: key, Present: true, Val: deepCopy(val)})
		if i > 0 {
			e.assertPC(e.keyLess(st.Entries[i-1].Key, key, coll.KT))
		}
		st.Entries = append(st.Entries, en)
	}
}

func (e *Exec) flattenKey(v Value) []*Term {
	switch x := v.(type) {
	case *Term:
		return []*Term{x}
	case *SliceV:
		return []*Term{e.bytesTerm(x)}
	case Ptr:
		if x.O == nil {
			e.unsupported("nil key component")
		}
		return e.flattenKey(e.peek(x))
	case *StructV:
		var out []*Term
		for _, f := range x.F {
			out = append(out, e.flattenKey(f)...)
		}
		return out
	case nil:
		return nil
	}
	e.unsupported(fmt.Sprintf("collection key of type %T", v))
	return nil
}

func keysEq(a, b []*Term) *Term {
	if len(a) != len(b) {
		return False
	}
	var cs []*Term
	for i := range a {
		if a[i].S == StrSort {
			cs = append(cs, strEq(a[i], b[i]))
		} else {
			cs = append(cs, Eq(a[i], b[i]))
		}
	}
	return And(cs...)
}

func keyCompSigned(kt types.Type, i int) bool {
	// component i of key type kt is a signed integer?
	t := kt
	if n, ok := kt.(*types.Named); ok && namedOrigin(kt) == "cosmossdk.io/collections.Pair" {
		t = n.TypeArgs().At(i)
	}
	_, signed, ok := intInfo(t)
	return ok && signed
}

func (e *Exec) compLess(a, b *Term, signed bool) *Term {
	switch {
	case a.S.K == SBV:
		if signed {
			return bvCmp("bvslt", a, b)
		}
		return bvCmp("bvult", a, b)
	case a.S.K == SInt:
		return ILt(a, b)
	case a.S == StrSort:
		oa, ob := App("str.ord", IntSort, a), App("str.ord", IntSort, b)
		e.assertPC(Eq(Eq(oa, ob), strEq(a, b)))
		return ILt(oa, ob)
	case a.S == BytesSort:
		oa, ob := App("b.ord", IntSort, a), App("b.ord", IntSort, b)
		e.assertPC(Eq(Eq(oa, ob), Eq(a, b)))
		return ILt(oa, ob)
	}
	e.unsupported("ordering of key component sort " + a.S.SMT())
	return nil
}

func (e *Exec) keyLess(a, b []*Term, kt types.Type) *Term {
	// lexicographic
	var res *Term = False
	for i := len(a) - 1; i >= 0; i-- {
		lt := e.compLess(a[i], b[i], keyCompSigned(kt, i))
		var eq *Term
		if a[i].S == StrSort {
			eq = strEq(a[i], b[i])
		} else {
			eq = Eq(a[i], b[i])
		}
		res = Or(lt, And(eq, res))
	}
	return res
}

// find returns the entry whose key equals k (forking on aliasing), or nil
func (e *Exec) find(st *Store, k []*Term) *Entry {
	if len(st.Entries) == 0 {
		return nil
	}
	alts := make([]*Term, len(st.Entries)+1)
	var none []*Term
	for i, en := range st.Entries {
		alts[i] = keysEq(en.Key, k)
		none = append(none, Not(alts[i]))
	}
	alts[len(st.Entries)] = And(none...)
	i := e.decide(alts)
	if i == len(st.Entries) {
		return nil
	}
	return st.Entries[i]
}

// lookup: entry for key k, materialising an unknown entry of an open store (present or absent: fork)
func (e *Exec) lookupEntry(c *CtxV, coll *CollV, kv Value) *Entry {
	st := e.storeOf(c, coll)
	k := e.flattenKey(kv)
	if en := e.find(st, k); en != nil {
		return en
	}
	if st.Closed {
		return nil
	}
	// the pre-state may already have been read at this key in another fork of the same chain state
	if c.St.Init != nil {
		var cands []*Entry
		for _, ie := range c.St.Init.m[coll.Name] {
			seen := false
			for _, x := range st.Entries {
				if len(x.Key) > 0 && len(ie.Key) > 0 && &x.Key[0] == &ie.Key[0] {
					seen = true
				}
			}
			if !seen {
				cands = append(cands, ie)
			}
		}
		if len(cands) > 0 {
			alts := make([]*Term, len(cands)+1)
			var none []*Term
			for i, ie := range cands {
				alts[i] = keysEq(ie.Key, k)
				none = append(none, Not(alts[i]))
			}
			alts[len(cands)] = And(none...)
			if i := e.decide(alts); i < len(cands) {
				en := &Entry{Key: cands[i].Key, KeyV: cands[i].KeyV, Present: cands[i].Present, Val: deepCopy(cands[i].Val)}
				st.Entries = append(st.Entries, en)
				return en
			}
		}
	}
	name := fmt.Sprintf("st.%s%s{%d}", c.St.Prefix, coll.Name, len(st.Entries))
	p := e.fresh(name+".present", BoolSort)
	en := &Entry{Key: k, KeyV: kv}
	if e.decideBool(p) {
		en.Present = true
		en.Val = e.symValue(coll.VT, name)
	}
	st.Entries = append(st.Entries, en)
	e.inits = append(e.inits, initRec{Coll: c.St.Prefix + coll.Name, Key: k, Present: en.Present, Val: deepCopy(en.Val)})
	if c.St.Init != nil {
		c.St.Init.m[coll.Name] = append(c.St.Init.m[coll.Name], &Entry{Key: k, KeyV: kv, Present: en.Present, Val: deepCopy(en.Val)})
	}
	return en
}

func (e *Exec) setEntry(c *CtxV, coll *CollV, kv Value, val Value) {
	st := e.storeOf(c, coll)
	k := e.flattenKey(kv)
	if en := e.find(st, k); en != nil {
		en.Present, en.Val = true, deepCopy(val)
		return
	}
	en := &Entry{Key: k, KeyV: kv, Present: true, Val: deepCopy(val)}
	if !st.Closed {
		st.Entries = append(st.Entries, en)
		return
	}
	n := len(st.Entries)
	if lim, ok := e.cfg.Stores[coll.Name]; ok && n >= lim+e.cfg.Opts["slack"] && e.cfg.Opts["nolimit"] == 0 {
		e.end("unwind", "closed store "+coll.Name+" is full (slots bound)")
	}
	alts := make([]*Term, n+1)
	for p := 0; p <= n; p++ {
		c1, c2 := True, True
		if p > 0 {
			c1 = e.keyLess(st.Entries[p-1].Key, k, coll.KT)
		}
		if p < n {
			c2 = e.keyLess(k, st.Entries[p].Key, coll.KT)
		}
		alts[p] = And(c1, c2)
	}
	p := 0
	if n > 0 {
		p = e.decide(alts)
	}
	st.Entries = append(st.Entries, nil)
	copy(st.Entries[p+1:], st.Entries[p:])
	st.Entries[p] = en
}

func (e *Exec) removeEntry(c *CtxV, coll *CollV, kv Value) {
	st := e.storeOf(c, coll)
	k := e.flattenKey(kv)
	en := e.find(st, k)
	if en == nil {
		if !st.Closed {
			st.Entries = append(st.Entries, &Entry{Key: k, KeyV: kv})
		}
		return
	}
	if !st.Closed {
		en.Present, en.Val = false, nil
		return
	}
	for i, x := range st.Entries {
		if x == en {
			st.Entries = append(append([]*Entry{}, st.Entries[:i]...), st.Entries[i+1:]...)
			break
		}
	}
}

func notFoundErr() IfaceV {
	return errIface("cosmossdk.io/collections.ErrNotFound", StrLit("collections: not found"))
}

func collOf(e *Exec, v Value) *CollV {
	if p, ok := v.(Ptr); ok {
		v = e.peek(p)
	}
	c, ok := v.(*CollV)
	if !ok {
		e.unsupported(fmt.Sprintf("expected collection, got %T", v))
	}
	return c
}

var unitKey = IntI(0)

func init() {
	for _, kind := range []string{"Map", "Item", "Sequence"} {
		kind := kind
		modelTypes["cosmossdk.io/collections."+kind] = struct {
			zero func() Value
			sym  func(e *Exec, name string, t types.Type) Value
		}{
			zero: func() Value { return &CollV{Name: "<zero>", Kind: strings.ToLower(kind)} },
			sym: func(e *Exec, name string, t types.Type) Value {
				c := &CollV{Name: sliceKey(name)}
				n := t.(*types.Named)
				switch kind {
				case "Map":
					c.Kind = "map"
					c.KT, c.VT = n.TypeArgs().At(0), n.TypeArgs().At(1)
				case "Item":
					c.Kind = "item"
					c.VT = n.TypeArgs().At(0)
				case "Sequence":
					c.Kind = "seq"
					c.VT = types.Typ[types.Uint64]
				}
				return c
			},
		}
	}
	modelTypes["cosmossdk.io/collections.Schema"] = struct {
		zero func() Value
		sym  func(e *Exec, name string, t types.Type) Value
	}{zero: func() Value { return &ModelObj{Kind: "schema"} }, sym: func(e *Exec, name string, t types.Type) Value { return &ModelObj{Kind: "schema"} }}

	mapGet := func(e *Exec, a []Value) []Value {
		coll := collOf(e, a[0])
		c := ctxOf(e, a[1])
		en := e.lookupEntry(c, coll, a[2])
		if en == nil || !en.Present {
			return []Value{e.zero(coll.VT), notFoundErr()}
		}
		return []Value{deepCopy(en.Val), nilErr()}
	}
	models["(cosmossdk.io/collections.Map[K, V]).Get"] = mapGet
	models["(cosmossdk.io/collections.Map[K, V]).Has"] = func(e *Exec, a []Value) []Value {
		coll := collOf(e, a[0])
		en := e.lookupEntry(ctxOf(e, a[1]), coll, a[2])
		return []Value{BoolT(en != nil && en.Present), nilErr()}
	}
	models["(cosmossdk.io/collections.Map[K, V]).Set"] = func(e *Exec, a []Value) []Value {
		e.setEntry(ctxOf(e, a[1]), collOf(e, a[0]), a[2], a[3])
		return []Value{nilErr()}
	}
	models["(cosmossdk.io/collections.Map[K, V]).Remove"] = func(e *Exec, a []Value) []Value {
		e.removeEntry(ctxOf(e, a[1]), collOf(e, a[0]), a[2])
		return []Value{nilErr()}
	}
	models["(cosmossdk.io/collections.Map[K, V]).Walk"] = func(e *Exec, a []Value) []Value {
		coll := collOf(e, a[0])
		c := ctxOf(e, a[1])
		st := e.storeOf(c, coll)
		if !st.Closed {
			e.unsupported("Walk over open-world store " + coll.Name + " (declare slots with verifConfig(\"store:" + coll.Name + "\", n))")
		}
		lo, hi, desc, rerr := e.rangeBounds(a[2])
		if rerr != nil {
			return []Value{rerr}
		}
		if bad := e.invalidRange(lo, hi, coll.KT); bad != nil && e.decideBool(bad) {
			return []Value{errIface("cosmossdk.io/collections.ErrInvalidIterator", StrLit("collections: invalid iterator"))}
		}
		snap := append([]*Entry{}, st.Entries...)
		if desc {
			for i, j := 0, len(snap)-1; i < j; i, j = i+1, j-1 {
				snap[i], snap[j] = snap[j], snap[i]
			}
		}
		for _, en := range snap {
			if !en.Present {
				continue
			}
			if lo != nil || hi != nil {
				if !e.decideBool(e.inRange(en.Key, lo, hi, coll.KT)) {
					continue
				}
			}
			// the entry may have been removed/changed by the callback of an earlier element: read it fresh
			cur := en
			live := false
			for _, x := range e.storeOf(c, coll).Entries {
				if x == en {
					live = true
				}
			}
			if !live {
				continue
			}
			rs := e.callValue(a[3], []Value{cur.KeyV, deepCopy(cur.Val)})
			if errv := rs[1].(IfaceV); errv.V != nil {
				return []Value{errv}
			}
			if e.decideBool(rs[0].(*Term)) {
				break
			}
		}
		return []Value{nilErr()}
	}
	models["(cosmossdk.io/collections.Map[K, V]).Clear"] = func(e *Exec, a []Value) []Value {
		coll := collOf(e, a[0])
		c := ctxOf(e, a[1])
		st := e.storeOf(c, coll)
		if !st.Closed {
			e.unsupported("Clear of open-world store " + coll.Name)
		}
		lo, hi, _, rerr := e.rangeBounds(a[2])
		if rerr != nil {
			return []Value{rerr}
		}
		if lo == nil && hi == nil {
			st.Entries = nil
			return []Value{nilErr()}
		}
		if bad := e.invalidRange(lo, hi, coll.KT); bad != nil && e.decideBool(bad) {
			return []Value{errIface("cosmossdk.io/collections.ErrInvalidIterator", StrLit("collections: invalid iterator"))}
		}
		var keep []*Entry
		for _, en := range st.Entries {
			if en.Present && e.decideBool(e.inRange(en.Key, lo, hi, coll.KT)) {
				continue
			}
			keep = append(keep, en)
		}
		st.Entries = keep
		return []Value{nilErr()}
	}
	// Item
	models["(cosmossdk.io/collections.Item[V]).Get"] = func(e *Exec, a []Value) []Value {
		return mapGet(e, []Value{a[0], a[1], unitKey})
	}
	models["(cosmossdk.io/collections.Item[V]).Has"] = func(e *Exec, a []Value) []Value {
		en := e.lookupEntry(ctxOf(e, a[1]), collOf(e, a[0]), unitKey)
		return []Value{BoolT(en != nil && en.Present), nilErr()}
	}
	models["(cosmossdk.io/collections.Item[V]).Set"] = func(e *Exec, a []Value) []Value {
		e.setEntry(ctxOf(e, a[1]), collOf(e, a[0]), unitKey, a[2])
		return []Value{nilErr()}
	}
	models["(cosmossdk.io/collections.Item[V]).Remove"] = func(e *Exec, a []Value) []Value {
		e.removeEntry(ctxOf(e, a[1]), collOf(e, a[0]), unitKey)
		return []Value{nilErr()}
	}
	// Sequence
	seqPeek := func(e *Exec, coll *CollV, c *CtxV) *Term {
		en := e.lookupEntry(c, coll, unitKey)
		if en == nil || !en.Present {
			return BVU(0, 64)
		}
		return en.Val.(*Term)
	}
	models["(cosmossdk.io/collections.Sequence).Peek"] = func(e *Exec, a []Value) []Value {
		return []Value{seqPeek(e, collOf(e, a[0]), ctxOf(e, a[1])), nilErr()}
	}
	models["(cosmossdk.io/collections.Sequence).Next"] = func(e *Exec, a []Value) []Value {
		coll, c := collOf(e, a[0]), ctxOf(e, a[1])
		v := seqPeek(e, coll, c)
		e.setEntry(c, coll, unitKey, bvBin("bvadd", v, BVU(1, 64)))
		return []Value{v, nilErr()}
	}
	models["(cosmossdk.io/collections.Sequence).Set"] = func(e *Exec, a []Value) []Value {
		e.setEntry(ctxOf(e, a[1]), collOf(e, a[0]), unitKey, a[2])
		return []Value{nilErr()}
	}
}

// ---------- ranges ----------
// A Ranger (collections.Range, PairRange, or any implementation in the repository) is executed from its own
// code: its RangeValues method yields the start/end RangeKeys, which are interpreted on decoded keys.

type rbound struct {
	kind int // 0 exact, 1 next, 2 prefix end
	key  []*Term
}

// flattenPartial: key components up to the first absent one (PairPrefix leaves k2 nil)
func (e *Exec) flattenPartial(v Value) []*Term {
	switch x := v.(type) {
	case *Term:
		return []*Term{x}
	case *SliceV:
		return []*Term{e.bytesTerm(x)}
	case Ptr:
		if x.O == nil {
			return nil
		}
		return e.flattenPartial(e.peek(x))
	case *StructV:
		var out []*Term
		for _, f := range x.F {
			if p, ok := f.(Ptr); ok && p.O == nil {
				break
			}
			out = append(out, e.flattenPartial(f)...)
		}
		return out
	case nil:
		return nil
	}
	e.unsupported(fmt.Sprintf("range key of type %T", v))
	return nil
}

func (e *Exec) rangeBounds(rv Value) (lo, hi *rbound, desc bool, errv Value) {
	iv, ok := rv.(IfaceV)
	if !ok {
		if rv == nil {
			return
		}
		e.unsupported(fmt.Sprintf("ranger of type %T", rv))
	}
	if iv.V == nil {
		return
	}
	if p, ok := iv.V.(Ptr); ok && p.O == nil {
		// a typed nil pointer inside the interface: RangeValues would dereference it
		e.goPanicStr("runtime error: invalid memory address or nil pointer dereference (nil ranger)")
	}
	if iv.T == nil {
		e.unsupported("ranger without a dynamic type")
	}
	fn := e.methodOf(iv.T, "RangeValues", nil)
	if fn == nil {
		e.unsupported("ranger without RangeValues")
	}
	rs := e.callFn(fn, []Value{iv.V})
	if ev, ok := rs[3].(IfaceV); ok && ev.V != nil {
		return nil, nil, false, ev
	}
	get := func(v Value) *rbound {
		p, ok := v.(Ptr)
		if !ok || p.O == nil {
			return nil
		}
		sv, ok := e.load(p).(*StructV)
		if !ok || len(sv.F) != 2 {
			e.unsupported("unexpected RangeKey shape")
		}
		kt, ok := sv.F[0].(*Term)
		if !ok || !kt.IsConst() {
			e.unsupported("symbolic range key kind")
		}
		return &rbound{kind: int(kt.N.Int64()), key: e.flattenPartial(sv.F[1])}
	}
	lo, hi = get(rs[0]), get(rs[1])
	ord, ok := rs[2].(*Term)
	if !ok || !ord.IsConst() {
		e.unsupported("symbolic range order")
	}
	switch ord.N.Int64() {
	case 0:
	case 1:
		desc = true
	default:
		return nil, nil, false, errIface("cosmossdk.io/collections.errOrder", StrLit("collections: invalid order"))
	}
	return
}

// lexCmp: lexicographic comparison of the first len(b) components; strict: a < b, else a <= b
func (e *Exec) lexLess(a, b []*Term, kt types.Type, orEqual bool) *Term {
	res := BoolT(orEqual)
	for i := len(b) - 1; i >= 0; i-- {
		lt := e.compLess(a[i], b[i], keyCompSigned(kt, i))
		var eq *Term
		if a[i].S == StrSort {
			eq = strEq(a[i], b[i])
		} else {
			eq = Eq(a[i], b[i])
		}
		res = Or(lt, And(eq, res))
	}
	return res
}

func isPairKey(kt types.Type) bool {
	o := namedOrigin(kt)
	return o == "cosmossdk.io/collections.Pair" || o == "cosmossdk.io/collections.Triple"
}

func (e *Exec) inRange(key []*Term, lo, hi *rbound, kt types.Type) *Term {
	chk := func(b *rbound) {
		if len(b.key) > len(key) {
			e.unsupported("range bound with more components than the key")
		}
		if len(b.key) == 0 {
			e.unsupported("range bound without key components")
		}
		last := b.key[len(b.key)-1]
		if !isPairKey(kt) && b.kind == 2 && (last.S == StrSort || last.S == BytesSort) {
			e.unsupported("byte-prefix range over a string/bytes key")
		}
		if b.kind == 1 && len(b.key) < len(key) {
			e.unsupported("exclusive bound on a partial key")
		}
	}
	cs := []*Term{}
	if lo != nil {
		chk(lo)
		m := len(lo.key)
		switch lo.kind {
		case 0: // key >= bound
			cs = append(cs, e.lexLess(lo.key, key[:m], kt, true))
		default: // next / prefix end: key > bound
			cs = append(cs, e.lexLess(lo.key, key[:m], kt, false))
		}
	}
	if hi != nil {
		chk(hi)
		m := len(hi.key)
		switch hi.kind {
		case 0: // key < bound
			cs = append(cs, e.lexLess(key[:m], hi.key, kt, false))
		default: // next / prefix end: key <= bound
			cs = append(cs, e.lexLess(key[:m], hi.key, kt, true))
		}
	}
	return And(cs...)
}

// invalidRange: the store refuses start > end (ErrInvalidIterator); decided for full exact bounds
func (e *Exec) invalidRange(lo, hi *rbound, kt types.Type) *Term {
	if lo == nil || hi == nil || len(lo.key) != len(hi.key) {
		return nil
	}
	off := func(k int) int { // exact = the key itself, next / prefix end = just after it
		if k == 0 {
			return 0
		}
		return 1
	}
	switch {
	case off(lo.kind) <= off(hi.kind):
		return e.lexLess(hi.key, lo.key, kt, false) // start > end
	default:
		return e.lexLess(hi.key, lo.key, kt, true) // start (after lo) > end (at hi)
	}
}

// Field access on model values that stand for structs
func (e *Exec) modelField(v Value, t types.Type, idx int) Value {
	e.unsupported(fmt.Sprintf("field %d of model value %T (%s)", idx, v, t))
	return nil
}

func (e *Exec) modelImplements(v Value, iface types.Type) bool {
	name := typeKey(iface)
	switch x := v.(type) {
	case *ErrV:
		return name == "error"
	case *ModelObj:
		if impl, ok := x.F["implements"]; ok {
			return strings.Contains(impl.(*Term).Str, "|"+name+"|")
		}
		switch x.Kind {
		case "pubkey":
			return strings.HasSuffix(name, "crypto/types.PubKey")
		}
	}
	return false
}

func (e *Exec) modelIsType(v Value, t types.Type) bool {
	switch x := v.(type) {
	case *ModelObj:
		if tn, ok := x.F["type"]; ok {
			return tn.(*Term).Str == typeKey(t)
		}
	case *ErrV:
		return typeKey(t) == "*cosmossdk.io/errors.Error" && x.Root != ""
	case *CtxV:
		return typeKey(t) == "github.com/cosmos/cosmos-sdk/types.Context"
	}
	return false
}
