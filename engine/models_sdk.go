package main

import (
	"fmt"
	"go/types"
	"math/big"

	"golang.org/x/tools/go/ssa"
)

type mt = struct {
	zero func() Value
	sym  func(e *Exec, name string, t types.Type) Value
}

func (w *World) fnByName(pkgPath, name string) *ssa.Function {
	for _, p := range w.prog.AllPackages() {
		if p.Pkg.Path() == pkgPath {
			if f, ok := p.Members[name].(*ssa.Function); ok {
				return f
			}
		}
	}
	return nil
}

func (w *World) typeByName(pkgPath, name string) types.Type {
	for _, p := range w.prog.AllPackages() {
		if p.Pkg.Path() == pkgPath {
			if t, ok := p.Members[name].(*ssa.Type); ok {
				return t.Type()
			}
		}
	}
	return nil
}

func intOf(e *Exec, v Value) IntV {
	if p, ok := v.(Ptr); ok {
		v = e.peek(p)
	}
	i, ok := v.(IntV)
	if !ok {
		e.unsupported(fmt.Sprintf("expected math.Int, got %T", v))
	}
	return i
}

func (e *Exec) intNN(v Value) *Term {
	i := intOf(e, v)
	if i.Nil {
		e.goPanicStr("runtime error: invalid memory address or nil pointer dereference (nil math.Int)")
	}
	return i.T
}

func timeOf(e *Exec, v Value) TimeV {
	if p, ok := v.(Ptr); ok {
		v = e.peek(p)
	}
	t, ok := v.(TimeV)
	if !ok {
		e.unsupported(fmt.Sprintf("expected time.Time, got %T", v))
	}
	return t
}

var zeroTimeSec = int64(-62135596800)

// int.u64(t): the uint64 whose value is t (valid under the range guard)
func (e *Exec) intU64(t *Term) *Term {
	if t.IsConst() {
		return BVConst(t.N, 64)
	}
	if t.Op == "bv2nat" && t.Args[0].S.W == 64 {
		return t.Args[0]
	}
	r := App("int.u64", BV(64), t)
	if e.u64memo[r.Key()] == nil {
		e.u64memo[r.Key()] = r
		e.assertPC(Implies(And(IGe(t, IntI(0)), ILt(t, IntConst(pow2(64)))), Eq(BV2Nat(r), t)))
	}
	return r
}

func (e *Exec) intI64(t *Term) *Term {
	if t.IsConst() {
		return BVConst(t.N, 64)
	}
	r := App("int.i64", BV(64), t)
	if e.u64memo[r.Key()] == nil {
		e.u64memo[r.Key()] = r
		e.assertPC(Implies(And(IGe(t, IntConst(new(big.Int).Neg(pow2(63)))), ILt(t, IntConst(pow2(63)))), Eq(BV2Int(r), t)))
	}
	return r
}

func init() {
	// ---------- math.Int ----------
	modelTypes["cosmossdk.io/math.Int"] = mt{
		zero: func() Value { return IntV{Nil: true} },
		sym: func(e *Exec, name string, t types.Type) Value {
			v := e.fresh(name, IntSort)
			e.assertPC(And(IGt(v, IntConst(new(big.Int).Neg(pow2(128)))), ILt(v, IntConst(pow2(128)))))
			return IntV{T: v}
		},
	}
	mi := "(cosmossdk.io/math.Int)."
	models[mi+"IsNil"] = func(e *Exec, a []Value) []Value { return []Value{BoolT(intOf(e, a[0]).Nil)} }
	models[mi+"IsZero"] = func(e *Exec, a []Value) []Value { return []Value{Eq(e.intNN(a[0]), IntI(0))} }
	models[mi+"IsPositive"] = func(e *Exec, a []Value) []Value { return []Value{IGt(e.intNN(a[0]), IntI(0))} }
	models[mi+"IsNegative"] = func(e *Exec, a []Value) []Value { return []Value{ILt(e.intNN(a[0]), IntI(0))} }
	models[mi+"Sign"] = func(e *Exec, a []Value) []Value {
		t := e.intNN(a[0])
		return []Value{Ite(IGt(t, IntI(0)), BVI(1, 64), Ite(ILt(t, IntI(0)), BVI(-1, 64), BVI(0, 64)))}
	}
	models[mi+"String"] = func(e *Exec, a []Value) []Value {
		i := intOf(e, a[0])
		if i.Nil {
			return []Value{StrLit("<nil>")}
		}
		return []Value{strInt(i.T)}
	}
	models[mi+"IsUint64"] = func(e *Exec, a []Value) []Value {
		t := e.intNN(a[0])
		return []Value{And(IGe(t, IntI(0)), ILt(t, IntConst(pow2(64))))}
	}
	models[mi+"IsInt64"] = func(e *Exec, a []Value) []Value {
		t := e.intNN(a[0])
		return []Value{And(IGe(t, IntConst(new(big.Int).Neg(pow2(63)))), ILt(t, IntConst(pow2(63))))}
	}
	models[mi+"Uint64"] = func(e *Exec, a []Value) []Value {
		t := e.intNN(a[0])
		if !e.decideBool(And(IGe(t, IntI(0)), ILt(t, IntConst(pow2(64))))) {
			e.goPanicStr("Uint64() out of bounds")
		}
		return []Value{e.intU64(t)}
	}
	models[mi+"Int64"] = func(e *Exec, a []Value) []Value {
		t := e.intNN(a[0])
		if !e.decideBool(And(IGe(t, IntConst(new(big.Int).Neg(pow2(63)))), ILt(t, IntConst(pow2(63))))) {
			e.goPanicStr("Int64() out of bound")
		}
		return []Value{e.intI64(t)}
	}
	bin := func(name string, f func(x, y *Term) Value) {
		models[mi+name] = func(e *Exec, a []Value) []Value { return []Value{f(e.intNN(a[0]), e.intNN(a[1]))} }
	}
	bin("Add", func(x, y *Term) Value { return IntV{T: IAdd(x, y)} })
	bin("Sub", func(x, y *Term) Value { return IntV{T: ISub(x, y)} })
	bin("Mul", func(x, y *Term) Value { return IntV{T: IMul(x, y)} })
	bin("GT", func(x, y *Term) Value { return IGt(x, y) })
	bin("GTE", func(x, y *Term) Value { return IGe(x, y) })
	bin("LT", func(x, y *Term) Value { return ILt(x, y) })
	bin("LTE", func(x, y *Term) Value { return ILe(x, y) })
	bin("Equal", func(x, y *Term) Value { return Eq(x, y) })
	models[mi+"Quo"] = func(e *Exec, a []Value) []Value {
		x, y := e.intNN(a[0]), e.intNN(a[1])
		if e.decideBool(Eq(y, IntI(0))) {
			e.goPanicStr("division by zero")
		}
		return []Value{IntV{T: goQuo(x, y)}}
	}
	models[mi+"Neg"] = func(e *Exec, a []Value) []Value { return []Value{IntV{T: INeg(e.intNN(a[0]))}} }
	models[mi+"AddRaw"] = func(e *Exec, a []Value) []Value {
		return []Value{IntV{T: IAdd(e.intNN(a[0]), BV2Int(asTerm(e, a[1])))}}
	}
	models[mi+"SubRaw"] = func(e *Exec, a []Value) []Value {
		return []Value{IntV{T: ISub(e.intNN(a[0]), BV2Int(asTerm(e, a[1])))}}
	}
	models[mi+"QuoRaw"] = func(e *Exec, a []Value) []Value {
		y := toIntSigned(asTerm(e, a[1]))
		if e.decideBool(Eq(y, IntI(0))) {
			e.goPanicStr("division by zero")
		}
		return []Value{IntV{T: goQuo(e.intNN(a[0]), y)}}
	}
	models[mi+"ModRaw"] = func(e *Exec, a []Value) []Value {
		y := toIntSigned(asTerm(e, a[1]))
		if e.decideBool(Eq(y, IntI(0))) {
			e.goPanicStr("division by zero")
		}
		x := e.intNN(a[0])
		return []Value{IntV{T: ISub(x, IMul(goQuo(x, y), y))}}
	}
	models[mi+"MulRaw"] = func(e *Exec, a []Value) []Value {
		return []Value{IntV{T: IMul(e.intNN(a[0]), BV2Int(asTerm(e, a[1])))}}
	}
	models[mi+"BigInt"] = func(e *Exec, a []Value) []Value {
		i := intOf(e, a[0])
		if i.Nil {
			return []Value{nilPtr()}
		}
		return []Value{i}
	}
	models["cosmossdk.io/math.NewInt"] = func(e *Exec, a []Value) []Value {
		return []Value{IntV{T: toIntSigned(asTerm(e, a[0]))}}
	}
	models["cosmossdk.io/math.NewIntFromUint64"] = func(e *Exec, a []Value) []Value {
		t := asTerm(e, a[0])
		if t.S.K == SInt { // an integer-shadow quantity (non-negative by its uint64 type)
			return []Value{IntV{T: t}}
		}
		return []Value{IntV{T: BV2Nat(t)}}
	}
	models["cosmossdk.io/math.ZeroInt"] = func(e *Exec, a []Value) []Value { return []Value{IntV{T: IntI(0)}} }
	models["cosmossdk.io/math.OneInt"] = func(e *Exec, a []Value) []Value { return []Value{IntV{T: IntI(1)}} }
	models["cosmossdk.io/math.NewIntFromBigInt"] = func(e *Exec, a []Value) []Value {
		if p, ok := a[0].(Ptr); ok && p.O == nil {
			return []Value{IntV{Nil: true}}
		}
		return []Value{intOf(e, a[0])}
	}
	models["cosmossdk.io/math.MaxInt"] = func(e *Exec, a []Value) []Value {
		x, y := e.intNN(a[0]), e.intNN(a[1])
		return []Value{IntV{T: Ite(IGt(x, y), x, y)}}
	}
	models["cosmossdk.io/math.MinInt"] = func(e *Exec, a []Value) []Value {
		x, y := e.intNN(a[0]), e.intNN(a[1])
		return []Value{IntV{T: Ite(ILt(x, y), x, y)}}
	}
	globalModels["github.com/cosmos/cosmos-sdk/types.DefaultPowerReduction"] = func(e *Exec) Value { return IntV{T: IntI(1000000)} }

	// ---------- LegacyDec: integer scaled by 10^18 ----------
	modelTypes["cosmossdk.io/math.LegacyDec"] = mt{
		zero: func() Value { return DecV{Nil: true} },
		sym: func(e *Exec, name string, t types.Type) Value {
			v := e.fresh(name, IntSort)
			e.assertPC(And(IGt(v, IntConst(new(big.Int).Neg(pow2(128)))), ILt(v, IntConst(pow2(128)))))
			return DecV{T: v}
		},
	}
	md := "(cosmossdk.io/math.LegacyDec)."
	e18 := IntConst(new(big.Int).Exp(big.NewInt(10), big.NewInt(18), nil))
	decNN := func(e *Exec, v Value) *Term {
		if p, ok := v.(Ptr); ok {
			v = e.peek(p)
		}
		d, ok := v.(DecV)
		if !ok {
			e.unsupported(fmt.Sprintf("expected LegacyDec, got %T", v))
		}
		if d.Nil {
			e.goPanicStr("runtime error: invalid memory address or nil pointer dereference (nil LegacyDec)")
		}
		return d.T
	}
	models[md+"IsNil"] = func(e *Exec, a []Value) []Value { return []Value{BoolT(a[0].(DecV).Nil)} }
	models[md+"IsZero"] = func(e *Exec, a []Value) []Value { return []Value{Eq(decNN(e, a[0]), IntI(0))} }
	models[md+"IsPositive"] = func(e *Exec, a []Value) []Value { return []Value{IGt(decNN(e, a[0]), IntI(0))} }
	models[md+"IsNegative"] = func(e *Exec, a []Value) []Value { return []Value{ILt(decNN(e, a[0]), IntI(0))} }
	models[md+"Equal"] = func(e *Exec, a []Value) []Value { return []Value{Eq(decNN(e, a[0]), decNN(e, a[1]))} }
	models[md+"GT"] = func(e *Exec, a []Value) []Value { return []Value{IGt(decNN(e, a[0]), decNN(e, a[1]))} }
	models[md+"GTE"] = func(e *Exec, a []Value) []Value { return []Value{IGe(decNN(e, a[0]), decNN(e, a[1]))} }
	models[md+"LT"] = func(e *Exec, a []Value) []Value { return []Value{ILt(decNN(e, a[0]), decNN(e, a[1]))} }
	models[md+"LTE"] = func(e *Exec, a []Value) []Value { return []Value{ILe(decNN(e, a[0]), decNN(e, a[1]))} }
	models[md+"Add"] = func(e *Exec, a []Value) []Value { return []Value{DecV{T: IAdd(decNN(e, a[0]), decNN(e, a[1]))}} }
	models[md+"Sub"] = func(e *Exec, a []Value) []Value { return []Value{DecV{T: ISub(decNN(e, a[0]), decNN(e, a[1]))}} }
	models[md+"MulInt"] = func(e *Exec, a []Value) []Value { return []Value{DecV{T: IMul(decNN(e, a[0]), e.intNN(a[1]))}} }
	models[md+"MulInt64"] = func(e *Exec, a []Value) []Value {
		return []Value{DecV{T: IMul(decNN(e, a[0]), BV2Int(asTerm(e, a[1])))}}
	}
	models[md+"Ceil"] = func(e *Exec, a []Value) []Value {
		x := decNN(e, a[0])
		// ceil(x/1e18)*1e18 ; SMT div floors for a positive divisor
		q := IDiv(x, e18)
		r := IMod(x, e18)
		return []Value{DecV{T: IMul(Ite(Eq(r, IntI(0)), q, IAdd(q, IntI(1))), e18)}}
	}
	integral := func(x *Term) *Term {
		// x = k * 10^18 syntactically (result of Ceil / NewDecFromInt): the integer part is k
		if x.Op == "*" && len(x.Args) == 2 {
			if x.Args[1].IsConst() && x.Args[1].N.Cmp(e18.N) == 0 {
				return x.Args[0]
			}
			if x.Args[0].IsConst() && x.Args[0].N.Cmp(e18.N) == 0 {
				return x.Args[1]
			}
		}
		return nil
	}
	models[md+"RoundInt"] = func(e *Exec, a []Value) []Value {
		x := decNN(e, a[0])
		if k := integral(x); k != nil {
			return []Value{IntV{T: k}}
		}
		// banker's rounding; exact on integral values
		q := IDiv(x, e18)
		r := IMod(x, e18)
		half := IntConst(new(big.Int).Div(e18.N, big.NewInt(2)))
		up := Or(IGt(r, half), And(Eq(r, half), Eq(IMod(q, IntI(2)), IntI(1))))
		return []Value{IntV{T: Ite(up, IAdd(q, IntI(1)), q)}}
	}
	models[md+"TruncateInt"] = func(e *Exec, a []Value) []Value {
		if k := integral(decNN(e, a[0])); k != nil {
			return []Value{IntV{T: k}}
		}
		return []Value{IntV{T: goQuo(decNN(e, a[0]), e18)}}
	}
	models[md+"String"] = func(e *Exec, a []Value) []Value {
		d := a[0].(DecV)
		if d.Nil {
			return []Value{StrLit("<nil>")}
		}
		return []Value{App("str.dec", StrSort, d.T)}
	}
	models["cosmossdk.io/math.LegacyNewDec"] = func(e *Exec, a []Value) []Value {
		return []Value{DecV{T: IMul(BV2Int(asTerm(e, a[0])), e18)}}
	}
	models["cosmossdk.io/math.LegacyNewDecFromInt"] = func(e *Exec, a []Value) []Value {
		return []Value{DecV{T: IMul(e.intNN(a[0]), e18)}}
	}
	models["cosmossdk.io/math.LegacyNewDecWithPrec"] = func(e *Exec, a []Value) []Value {
		prec := asTerm(e, a[1])
		if !prec.IsConst() {
			e.unsupported("LegacyNewDecWithPrec with a symbolic precision")
		}
		var pv int64
		if prec.S.K == SBV {
			pv = prec.Signed().Int64()
		} else {
			pv = prec.N.Int64()
		}
		if pv < 0 || pv > 18 {
			e.goPanicStr("too much precision")
		}
		scale := new(big.Int).Exp(big.NewInt(10), big.NewInt(18-pv), nil)
		return []Value{DecV{T: IMul(toIntSigned(asTerm(e, a[0])), IntConst(scale))}}
	}
	models["cosmossdk.io/math.LegacyZeroDec"] = func(e *Exec, a []Value) []Value { return []Value{DecV{T: IntI(0)}} }
	models["cosmossdk.io/math.LegacyOneDec"] = func(e *Exec, a []Value) []Value { return []Value{DecV{T: e18}} }
	models["cosmossdk.io/math.LegacyMaxDec"] = func(e *Exec, a []Value) []Value {
		x, y := decNN(e, a[0]), decNN(e, a[1])
		return []Value{DecV{T: Ite(ILt(x, y), y, x)}}
	}
	models["cosmossdk.io/math.LegacyMinDec"] = func(e *Exec, a []Value) []Value {
		x, y := decNN(e, a[0]), decNN(e, a[1])
		return []Value{DecV{T: Ite(ILt(x, y), x, y)}}
	}
	globalModels["github.com/cosmos/cosmos-sdk/types.MsgTypeURL"] = func(e *Exec) Value {
		return &FuncV{Name: "MsgTypeURL", Native: func(e *Exec, a []Value) []Value {
			return models["github.com/cosmos/cosmos-sdk/types.MsgTypeURL"](e, a)
		}}
	}

	// ---------- denominations ----------
	models["github.com/cosmos/cosmos-sdk/types.ValidateDenom"] = func(e *Exec, a []Value) []Value {
		s := asTerm(e, a[0])
		ok := App("validDenom", BoolSort, s)
		if e.decideBool(ok) {
			return []Value{nilErr()}
		}
		return []Value{errIface("", strCat(StrLit("invalid denom: "), s))}
	}
	instanceAxioms["validDenom"] = func(t *Term) []*Term {
		// a valid denom has 3..128 characters; in particular it is not empty
		l := App("str.len", IntSort, t.Args[0])
		return []*Term{Implies(t, And(IGe(l, IntI(3)), ILe(l, IntI(128))))}
	}

	// ---------- time ----------
	modelTypes["time.Time"] = mt{
		zero: func() Value { return TimeV{Sec: IntI(zeroTimeSec), Nsec: IntI(0)} },
		sym:  func(e *Exec, name string, t types.Type) Value { return e.symTime(name) },
	}
	tm := "(time.Time)."
	models[tm+"Unix"] = func(e *Exec, a []Value) []Value { return []Value{timeOf(e, a[0]).Sec} }
	models[tm+"UnixNano"] = func(e *Exec, a []Value) []Value {
		t := timeOf(e, a[0])
		// int64 wrap-around over the whole Timestamp range (years 1..9999 exceed int64 nanoseconds many times over):
		// n - 2^64 * floor((n + 2^63) / 2^64)
		n := IAdd(IMul(t.Sec, IntI(1000000000)), t.Nsec)
		two := IntConst(pow2(64))
		return []Value{ISub(n, IMul(two, IDiv(IAdd(n, IntConst(pow2(63))), two)))}
	}
	du := "(time.Duration)."
	models[du+"Nanoseconds"] = func(e *Exec, a []Value) []Value { return []Value{toIntSigned(asTerm(e, a[0]))} }
	models[du+"Microseconds"] = func(e *Exec, a []Value) []Value {
		return []Value{goQuo(toIntSigned(asTerm(e, a[0])), IntI(1000))}
	}
	models[du+"Milliseconds"] = func(e *Exec, a []Value) []Value {
		return []Value{goQuo(toIntSigned(asTerm(e, a[0])), IntI(1000000))}
	}
	models[tm+"Nanosecond"] = func(e *Exec, a []Value) []Value { return []Value{timeOf(e, a[0]).Nsec} }
	models[tm+"IsZero"] = func(e *Exec, a []Value) []Value {
		t := timeOf(e, a[0])
		return []Value{And(Eq(t.Sec, IntI(zeroTimeSec)), Eq(t.Nsec, IntI(0)))}
	}
	models[tm+"UTC"] = func(e *Exec, a []Value) []Value { return []Value{timeOf(e, a[0])} }
	models[tm+"Equal"] = func(e *Exec, a []Value) []Value {
		x, y := timeOf(e, a[0]), timeOf(e, a[1])
		return []Value{And(Eq(x.Sec, y.Sec), Eq(x.Nsec, y.Nsec))}
	}
	models[tm+"After"] = func(e *Exec, a []Value) []Value {
		x, y := timeOf(e, a[0]), timeOf(e, a[1])
		return []Value{Or(IGt(x.Sec, y.Sec), And(Eq(x.Sec, y.Sec), IGt(x.Nsec, y.Nsec)))}
	}
	models[tm+"Before"] = func(e *Exec, a []Value) []Value {
		x, y := timeOf(e, a[0]), timeOf(e, a[1])
		return []Value{Or(ILt(x.Sec, y.Sec), And(Eq(x.Sec, y.Sec), ILt(x.Nsec, y.Nsec)))}
	}
	models[tm+"Add"] = func(e *Exec, a []Value) []Value {
		t := timeOf(e, a[0])
		d := asTerm(e, a[1])
		if d.S.K != SInt {
			d = BV2Int(d)
		}
		// time.Time.Add: dsec = d / 1e9 (truncated), nsec = t.nsec + d % 1e9 (truncated remainder), carry
		e9 := IntI(1000000000)
		dsec := goQuo(d, e9)
		drem := ISub(d, IMul(dsec, e9))
		ns := IAdd(t.Nsec, drem)
		sec := IAdd(t.Sec, dsec)
		sec2 := Ite(IGe(ns, e9), IAdd(sec, IntI(1)), Ite(ILt(ns, IntI(0)), ISub(sec, IntI(1)), sec))
		ns2 := Ite(IGe(ns, e9), ISub(ns, e9), Ite(ILt(ns, IntI(0)), IAdd(ns, e9), ns))
		// addSec saturates at the int64 wall range; representable instants are far inside, so the
		// saturation guard is: |sec| beyond ±2^62 is outside the modelled range (asserted unreachable by range of inputs)
		return []Value{TimeV{Sec: sec2, Nsec: ns2}}
	}
	models[tm+"Sub"] = func(e *Exec, a []Value) []Value {
		x, y := timeOf(e, a[0]), timeOf(e, a[1])
		d := IAdd(IMul(ISub(x.Sec, y.Sec), IntI(1000000000)), ISub(x.Nsec, y.Nsec))
		mx := IntConst(new(big.Int).Sub(pow2(63), big1))
		mn := IntConst(new(big.Int).Neg(pow2(63)))
		return []Value{Ite(IGt(d, mx), mx, Ite(ILt(d, mn), mn, d))}
	}
	models["time.Unix"] = func(e *Exec, a []Value) []Value {
		s, n := toIntSigned(asTerm(e, a[0])), toIntSigned(asTerm(e, a[1]))
		e9 := IntI(1000000000)
		// normalise nsec into [0,1e9)
		q := IDiv(n, e9) // SMT div floors for positive divisor
		return []Value{TimeV{Sec: IAdd(s, q), Nsec: IMod(n, e9)}}
	}

	// ---------- sdk.Context ----------
	modelTypes["github.com/cosmos/cosmos-sdk/types.Context"] = mt{
		zero: func() Value { return &CtxV{St: newState(), Em: &EventMgr{}} },
		sym:  func(e *Exec, name string, t types.Type) Value { return e.newCtx(name) },
	}
	sc := "(github.com/cosmos/cosmos-sdk/types.Context)."
	models["github.com/cosmos/cosmos-sdk/types.UnwrapSDKContext"] = func(e *Exec, a []Value) []Value {
		return []Value{ctxOf(e, a[0])}
	}
	models[sc+"BlockTime"] = func(e *Exec, a []Value) []Value { return []Value{ctxOf(e, a[0]).Time} }
	models[sc+"BlockHeight"] = func(e *Exec, a []Value) []Value { return []Value{ctxOf(e, a[0]).Height} }
	models[sc+"ChainID"] = func(e *Exec, a []Value) []Value { return []Value{ctxOf(e, a[0]).ChainID} }
	models[sc+"EventManager"] = func(e *Exec, a []Value) []Value { return []Value{IfaceV{V: ctxOf(e, a[0]).Em}} }
	models[sc+"GasMeter"] = func(e *Exec, a []Value) []Value { return []Value{ctxOf(e, a[0]).Gas} }
	models[sc+"IsCheckTx"] = func(e *Exec, a []Value) []Value { return []Value{ctxOf(e, a[0]).CheckTx} }
	models[sc+"IsReCheckTx"] = func(e *Exec, a []Value) []Value { return []Value{ctxOf(e, a[0]).ReCheckTx} }
	models[sc+"MinGasPrices"] = func(e *Exec, a []Value) []Value { return []Value{ctxOf(e, a[0]).MinGas} }
	models[sc+"ConsensusParams"] = func(e *Exec, a []Value) []Value {
		c := ctxOf(e, a[0])
		if c.ConsParam == nil {
			c.ConsParam = e.symConsParams()
		}
		return []Value{c.ConsParam}
	}
	models[sc+"BlockHeader"] = func(e *Exec, a []Value) []Value {
		c := ctxOf(e, a[0])
		ht := e.W.typeByName("github.com/cometbft/cometbft/proto/tendermint/types", "Header")
		h := e.zero(ht).(*StructV)
		st := ht.Underlying().(*types.Struct)
		for i := 0; i < st.NumFields(); i++ {
			switch st.Field(i).Name() {
			case "Height":
				h.F[i] = c.Height
			case "Time":
				h.F[i] = c.Time
			case "ChainID":
				h.F[i] = c.ChainID
			}
		}
		return []Value{h}
	}
	models[sc+"Logger"] = func(e *Exec, a []Value) []Value { return []Value{IfaceV{V: &ModelObj{Kind: "logger"}}} }
	for _, m := range []string{"Debug", "Info", "Warn", "Error"} {
		models["logger."+m] = func(e *Exec, a []Value) []Value { return nil }
	}
	models["logger.With"] = func(e *Exec, a []Value) []Value { return []Value{IfaceV{V: a[0]}} }
	models[sc+"WithGasMeter"] = func(e *Exec, a []Value) []Value {
		c := ctxOf(e, a[0]).copy()
		c.Gas = a[1]
		return []Value{c}
	}
	models[sc+"WithBlockHeight"] = func(e *Exec, a []Value) []Value {
		c := ctxOf(e, a[0]).copy()
		c.Height = asTerm(e, a[1])
		return []Value{c}
	}
	models[sc+"WithBlockTime"] = func(e *Exec, a []Value) []Value {
		c := ctxOf(e, a[0]).copy()
		c.Time = timeOf(e, a[1])
		return []Value{c}
	}
	models[sc+"WithIsCheckTx"] = func(e *Exec, a []Value) []Value {
		c := ctxOf(e, a[0]).copy()
		c.CheckTx = asTerm(e, a[1])
		return []Value{c}
	}
	models[sc+"WithMinGasPrices"] = func(e *Exec, a []Value) []Value {
		c := ctxOf(e, a[0]).copy()
		c.MinGas = a[1]
		return []Value{c}
	}
	models[sc+"WithIsReCheckTx"] = func(e *Exec, a []Value) []Value {
		c := ctxOf(e, a[0]).copy()
		c.ReCheckTx = asTerm(e, a[1])
		if c.ReCheckTx.IsTrue() {
			c.CheckTx = True
		}
		return []Value{c}
	}
	models[sc+"WithEventManager"] = func(e *Exec, a []Value) []Value {
		c := ctxOf(e, a[0]).copy()
		em := a[1]
		if iv, ok := em.(IfaceV); ok {
			em = iv.V
		}
		m, ok := em.(*EventMgr)
		if !ok {
			e.unsupported(fmt.Sprintf("WithEventManager(%T)", em))
		}
		c.Em = m
		return []Value{c}
	}
	models[sc+"CacheContext"] = func(e *Exec, a []Value) []Value {
		parent := ctxOf(e, a[0])
		child := parent.copy()
		child.St = parent.St.clone()
		child.Em = &EventMgr{}
		write := &FuncV{Name: "writeCache", Native: func(e *Exec, _ []Value) []Value {
			parent.Em.Events = append(parent.Em.Events, child.Em.Events...)
			parent.St.assign(child.St)
			return nil
		}}
		return []Value{child, write}
	}
	em := "(*github.com/cosmos/cosmos-sdk/types.EventManager)."
	models["github.com/cosmos/cosmos-sdk/types.NewEventManager"] = func(e *Exec, a []Value) []Value { return []Value{&EventMgr{}} }
	models[em+"EmitEvent"] = func(e *Exec, a []Value) []Value {
		m := a[0].(*EventMgr)
		m.Events = append(m.Events, deepCopy(a[1]))
		return nil
	}
	models[em+"EmitEvents"] = func(e *Exec, a []Value) []Value {
		m := a[0].(*EventMgr)
		for _, ev := range e.sliceElems(asSlice(e, a[1])) {
			m.Events = append(m.Events, deepCopy(ev))
		}
		return nil
	}
	models[em+"Events"] = func(e *Exec, a []Value) []Value { return evEvents(e, a) }
	models[em+"ABCIEvents"] = func(e *Exec, a []Value) []Value { return evEvents(e, a) } // sdk.Event is abci.Event by definition
	models["eventmgr.ABCIEvents"] = models[em+"ABCIEvents"]
	models["eventmgr.EmitEvent"] = models[em+"EmitEvent"]
	models["eventmgr.EmitEvents"] = models[em+"EmitEvents"]
	models["eventmgr.Events"] = models[em+"Events"]
}

var evEvents Model

func init() {
	evEvents = func(e *Exec, a []Value) []Value {
		m := a[0].(*EventMgr)
		arr := &ArrayV{E: make([]Value, len(m.Events))}
		for i, ev := range m.Events {
			arr.E[i] = deepCopy(ev)
		}
		if len(arr.E) == 0 {
			return []Value{&SliceV{Nil: true}}
		}
		return []Value{&SliceV{A: e.newObj(arr, "events"), Len: len(arr.E), Cap: len(arr.E)}}
	}

	// ---------- addresses / accounts built by SDK helpers ----------
	models["(github.com/cosmos/cosmos-sdk/types.AccAddress).String"] = func(e *Exec, a []Value) []Value {
		s := asSlice(e, a[0])
		if s.Op == nil && (s.Nil || s.Len == 0) {
			return []Value{StrLit("")}
		}
		return []Value{App("addr.str.acc", StrSort, e.bytesTerm(s))}
	}
	models["github.com/cosmos/cosmos-sdk/x/auth/types.NewModuleAddress"] = func(e *Exec, a []Value) []Value {
		return []Value{&SliceV{Op: moduleAddr(asTerm(e, a[0]))}}
	}
	models["github.com/cosmos/gogoproto/proto.EnumName"] = func(e *Exec, a []Value) []Value {
		m, ok := a[0].(*ModelObj)
		if !ok {
			e.unsupported("EnumName on a non-modelled map")
		}
		return []Value{App("str.enum."+m.Name, StrSort, asTerm(e, a[1]))}
	}

	// ---------- address codecs ----------
	ac := "addrcodec."
	models[ac+"StringToBytes"] = func(e *Exec, a []Value) []Value {
		c := a[0].(*ModelObj)
		s := asTerm(e, a[1])
		valid := App("addr.valid."+c.Name, BoolSort, s)
		if e.decideBool(valid) {
			return []Value{&SliceV{Op: App("addr.of."+c.Name, BytesSort, s)}, nilErr()}
		}
		return []Value{&SliceV{Nil: true}, errIface("", strCat(StrLit("decoding bech32 failed: "), s))}
	}
	models[ac+"BytesToString"] = func(e *Exec, a []Value) []Value {
		c := a[0].(*ModelObj)
		b := e.bytesTerm(asSlice(e, a[1]))
		if b.Op == "addr.of."+c.Name {
			// canonical rendering of a parsed address: same bytes; the text may differ in case only
			return []Value{App("addr.str."+c.Name, StrSort, b), nilErr()}
		}
		return []Value{App("addr.str."+c.Name, StrSort, b), nilErr()}
	}
	for _, k := range []string{"acc", "val", "cons"} {
		k := k
		instanceAxioms["addr.valid."+k] = func(t *Term) []*Term {
			// the empty string is never a valid address
			return []*Term{Implies(t, IGt(App("str.len", IntSort, t.Args[0]), IntI(0)))}
		}
		instanceAxioms["addr.str."+k] = func(t *Term) []*Term {
			// the rendering of an address is valid and decodes to that address (also when the address was itself
			// parsed from a differently spelled string)
			return []*Term{App("addr.valid."+k, BoolSort, t), Eq(App("addr.of."+k, BytesSort, t), t.Args[0])}
		}
		instanceAxioms["addr.of."+k] = func(t *Term) []*Term {
			// user addresses are never module-derived bridge escrow addresses (idealised address derivation)
			out := []*Term{Not(App("addr.isModuleDerived", BoolSort, t))}
			if t.Args[0].Op != "addr.str."+k {
				// a valid string is the rendering of the bytes it decodes to, unless it is one of the non-canonical
				// spellings of the same address (bech32 also accepts the all-upper-case form): addr.noncanon
				out = append(out, Implies(And(App("addr.valid."+k, BoolSort, t.Args[0]), Not(App("addr.noncanon", BoolSort, t.Args[0]))),
					Eq(App("addr.str."+k, StrSort, t), t.Args[0])))
				// the rendering of any address is canonical
				out = append(out, Not(App("addr.noncanon", BoolSort, App("addr.str."+k, StrSort, t))))
			}
			return out
		}
	}
}

func toIntSigned(t *Term) *Term {
	if t.S.K == SInt {
		return t
	}
	return BV2Int(t)
}

// newCtx: arbitrary block time / height, fresh state, infinite gas meter unless the harness replaces it
func (e *Exec) newCtx(name string) *CtxV {
	c := &CtxV{St: e.state, Em: &EventMgr{}}
	c.Time = e.symTime(name + ".blockTime")
	c.Height = e.fresh(name+".height", BV(64))
	e.assertPC(And(bvCmp("bvsge", c.Height, BVI(1, 64)), bvCmp("bvslt", c.Height, BVConst(pow2(62), 64))))
	c.CheckTx = False
	c.ReCheckTx = False
	c.ChainID = e.fresh(name+".chainID", StrSort)
	if f := e.W.fnByName("cosmossdk.io/store/types", "NewInfiniteGasMeter"); f != nil {
		c.Gas = e.callFn(f, nil)[0]
	}
	return c
}

// symConsParams: consensus params whose validator section is absent, or lists one arbitrary key type
func (e *Exec) symConsParams() Value {
	t := e.W.typeByName("github.com/cometbft/cometbft/proto/tendermint/types", "ConsensusParams")
	cp := e.zero(t).(*StructV)
	st := t.Underlying().(*types.Struct)
	for i := 0; i < st.NumFields(); i++ {
		if st.Field(i).Name() != "Validator" {
			continue
		}
		if e.decideBool(e.fresh("consParams.validator.nil", BoolSort)) {
			return cp
		}
		vt := st.Field(i).Type().(*types.Pointer).Elem()
		vp := e.zero(vt).(*StructV)
		arr := &ArrayV{E: []Value{e.fresh("consParams.pubKeyType", StrSort)}}
		vp.F[0] = &SliceV{A: e.newObj(arr, "pubkeytypes"), Len: 1, Cap: 1}
		cp.F[i] = Ptr{O: e.newObj(vp, "validatorParams")}
	}
	return cp
}
