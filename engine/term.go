package main

// Terms: the SMT-side values. Every scalar the interpreter manipulates is a *Term; constants are
// Terms too (folded eagerly so that concrete loops stay concrete).

import (
	"fmt"
	"math/big"
	"strings"
)

type SortKind int

const (
	SBool SortKind = iota
	SBV
	SInt
	SUn // uninterpreted sort (Str, Bytes, PubKey, ...)
)

type Sort struct {
	K    SortKind
	W    int    // bit width for SBV
	Name string // for SUn
}

var (
	BoolSort  = Sort{K: SBool}
	IntSort   = Sort{K: SInt}
	StrSort   = Sort{K: SUn, Name: "Str"}
	BytesSort = Sort{K: SUn, Name: "Bytes"}
)

func BV(w int) Sort { return Sort{K: SBV, W: w} }

func (s Sort) SMT() string {
	switch s.K {
	case SBool:
		return "Bool"
	case SBV:
		return fmt.Sprintf("(_ BitVec %d)", s.W)
	case SInt:
		return "Int"
	default:
		return s.Name
	}
}

type Term struct {
	Op   string // "const" for literals, "sym" for declared constants, "strlit", else SMT operator / UF name
	Args []*Term
	S    Sort
	N    *big.Int // numeric literal (BV: unsigned value; Int: value)
	B    bool     // bool literal
	Str  string   // symbol name / string literal payload / extra (extract indices)
	Hi   int      // extract
	Lo   int
	smt  string
	key  string
}

func (t *Term) IsConst() bool  { return t.Op == "const" }
func (t *Term) IsStrLit() bool { return t.Op == "strlit" }
func (t *Term) IsTrue() bool   { return t.Op == "const" && t.S.K == SBool && t.B }
func (t *Term) IsFalse() bool  { return t.Op == "const" && t.S.K == SBool && !t.B }

var (
	True  = &Term{Op: "const", S: BoolSort, B: true}
	False = &Term{Op: "const", S: BoolSort, B: false}
)

func BoolT(b bool) *Term {
	if b {
		return True
	}
	return False
}

func mask(w int) *big.Int {
	m := new(big.Int).Lsh(big.NewInt(1), uint(w))
	return m.Sub(m, big.NewInt(1))
}

func BVConst(v *big.Int, w int) *Term {
	n := new(big.Int).And(v, mask(w))
	if v.Sign() < 0 {
		n = new(big.Int).Mod(v, new(big.Int).Lsh(big.NewInt(1), uint(w)))
	}
	return &Term{Op: "const", S: BV(w), N: n}
}
func BVU(v uint64, w int) *Term { return BVConst(new(big.Int).SetUint64(v), w) }
func BVI(v int64, w int) *Term  { return BVConst(big.NewInt(v), w) }
func IntConst(v *big.Int) *Term { return &Term{Op: "const", S: IntSort, N: new(big.Int).Set(v)} }
func IntI(v int64) *Term        { return IntConst(big.NewInt(v)) }
func StrLit(s string) *Term     { return &Term{Op: "strlit", S: StrSort, Str: s} }
func Sym(name string, s Sort) *Term {
	return &Term{Op: "sym", S: s, Str: name}
}

// signed value of a BV literal
func (t *Term) Signed() *big.Int {
	if t.N.Bit(t.S.W-1) == 1 {
		return new(big.Int).Sub(t.N, new(big.Int).Lsh(big.NewInt(1), uint(t.S.W)))
	}
	return new(big.Int).Set(t.N)
}

func (t *Term) Key() string {
	if t.key != "" {
		return t.key
	}
	t.key = t.SMT()
	return t.key
}

func smtSymbol(name string) string {
	ok := true
	for _, c := range name {
		if !(c >= 'a' && c <= 'z' || c >= 'A' && c <= 'Z' || c >= '0' && c <= '9' || strings.ContainsRune("_.!$-+*<>=", c)) {
			ok = false
			break
		}
	}
	if ok && name != "" {
		return name
	}
	return "|" + strings.ReplaceAll(strings.ReplaceAll(name, "|", "/"), "\\", "/") + "|"
}

// SMT renders the term; string literals are rendered as the symbol the solver layer declares for them.
func (t *Term) SMT() string {
	if t.smt != "" {
		return t.smt
	}
	var s string
	switch t.Op {
	case "const":
		switch t.S.K {
		case SBool:
			if t.B {
				s = "true"
			} else {
				s = "false"
			}
		case SBV:
			if t.S.W%4 == 0 {
				s = fmt.Sprintf("#x%0*s", t.S.W/4, t.N.Text(16))
			} else {
				s = fmt.Sprintf("#b%0*s", t.S.W, t.N.Text(2))
			}
		case SInt:
			if t.N.Sign() < 0 {
				s = "(- " + new(big.Int).Neg(t.N).String() + ")"
			} else {
				s = t.N.String()
			}
		}
	case "sym":
		s = smtSymbol(t.Str)
	case "strlit":
		s = strLitSymbol(t.Str)
	case "extract":
		s = fmt.Sprintf("((_ extract %d %d) %s)", t.Hi, t.Lo, t.Args[0].SMT())
	case "zero_extend", "sign_extend":
		s = fmt.Sprintf("((_ %s %d) %s)", t.Op, t.Hi, t.Args[0].SMT())
	default:
		if len(t.Args) == 0 {
			s = smtSymbol(t.Op)
		} else {
			var sb strings.Builder
			sb.WriteString("(")
			sb.WriteString(smtSymbol(t.Op))
			for _, a := range t.Args {
				sb.WriteString(" ")
				sb.WriteString(a.SMT())
			}
			sb.WriteString(")")
			s = sb.String()
		}
	}
	t.smt = s
	return s
}

func strLitSymbol(s string) string {
	var sb strings.Builder
	sb.WriteString("lit!")
	for _, c := range []byte(s) {
		if c >= 'a' && c <= 'z' || c >= 'A' && c <= 'Z' || c >= '0' && c <= '9' || c == '_' || c == '.' || c == '-' {
			sb.WriteByte(c)
		} else {
			fmt.Fprintf(&sb, "$%02x", c)
		}
	}
	if len(s) > 60 {
		return fmt.Sprintf("lit!%s!%x", sb.String()[4:40], fnv(s))
	}
	return sb.String()
}

func fnv(s string) uint64 {
	h := uint64(14695981039346656037)
	for i := 0; i < len(s); i++ {
		h ^= uint64(s[i])
		h *= 1099511628211
	}
	return h
}

func sameTerm(a, b *Term) bool {
	if a == b {
		return true
	}
	return a.Key() == b.Key()
}

// ---------- boolean ----------

func Not(a *Term) *Term {
	if a.IsConst() {
		return BoolT(!a.B)
	}
	if a.Op == "not" {
		return a.Args[0]
	}
	return &Term{Op: "not", Args: []*Term{a}, S: BoolSort}
}

func And(xs ...*Term) *Term {
	var out []*Term
	for _, x := range xs {
		if x.IsFalse() {
			return False
		}
		if x.IsTrue() {
			continue
		}
		if x.Op == "and" {
			out = append(out, x.Args...)
		} else {
			out = append(out, x)
		}
	}
	if len(out) == 0 {
		return True
	}
	if len(out) == 1 {
		return out[0]
	}
	return &Term{Op: "and", Args: out, S: BoolSort}
}

func Or(xs ...*Term) *Term {
	var out []*Term
	for _, x := range xs {
		if x.IsTrue() {
			return True
		}
		if x.IsFalse() {
			continue
		}
		if x.Op == "or" {
			out = append(out, x.Args...)
		} else {
			out = append(out, x)
		}
	}
	if len(out) == 0 {
		return False
	}
	if len(out) == 1 {
		return out[0]
	}
	return &Term{Op: "or", Args: out, S: BoolSort}
}

func Implies(a, b *Term) *Term { return Or(Not(a), b) }

func Ite(c, a, b *Term) *Term {
	if c.IsTrue() {
		return a
	}
	if c.IsFalse() {
		return b
	}
	if sameTerm(a, b) {
		return a
	}
	if a.S.K == SBool {
		if a.IsTrue() && b.IsFalse() {
			return c
		}
		if a.IsFalse() && b.IsTrue() {
			return Not(c)
		}
		if b.IsFalse() {
			return And(c, a)
		}
		if a.IsFalse() {
			return And(Not(c), b)
		}
		if a.IsTrue() {
			return Or(c, b)
		}
		if b.IsTrue() {
			return Or(Not(c), a)
		}
	}
	return &Term{Op: "ite", Args: []*Term{c, a, b}, S: a.S}
}

func Eq(a, b *Term) *Term {
	if a.S != b.S {
		panic(fmt.Sprintf("Eq: sort mismatch %s vs %s (%s / %s)", a.S.SMT(), b.S.SMT(), a.SMT(), b.SMT()))
	}
	if a.IsConst() && b.IsConst() {
		if a.S.K == SBool {
			return BoolT(a.B == b.B)
		}
		return BoolT(a.N.Cmp(b.N) == 0)
	}
	if a.IsStrLit() && b.IsStrLit() {
		return BoolT(a.Str == b.Str)
	}
	if sameTerm(a, b) {
		return True
	}
	if a.S.K == SBool {
		if a.IsConst() {
			a, b = b, a
		}
		if b.IsTrue() {
			return a
		}
		if b.IsFalse() {
			return Not(a)
		}
	}
	// comparison of an if-then-else of constants with a constant: push the comparison inside
	if b.Op == "ite" && a.IsConst() {
		a, b = b, a
	}
	if a.Op == "ite" && b.IsConst() && iteOfConsts(a) {
		return Ite(a.Args[0], Eq(a.Args[1], b), Eq(a.Args[2], b))
	}
	return &Term{Op: "=", Args: []*Term{a, b}, S: BoolSort}
}

func iteOfConsts(t *Term) bool {
	if t.IsConst() {
		return true
	}
	return t.Op == "ite" && iteOfConsts(t.Args[1]) && iteOfConsts(t.Args[2])
}

func Distinct(xs ...*Term) *Term {
	if len(xs) < 2 {
		return True
	}
	var cs []*Term
	for i := range xs {
		for j := i + 1; j < len(xs); j++ {
			cs = append(cs, Not(Eq(xs[i], xs[j])))
		}
	}
	return And(cs...)
}

// ---------- bit-vectors ----------

func bvBin(op string, a, b *Term) *Term {
	if a.S != b.S {
		panic(fmt.Sprintf("%s: sort mismatch %s vs %s", op, a.S.SMT(), b.S.SMT()))
	}
	w := a.S.W
	if a.IsConst() && b.IsConst() {
		x, y := a.N, b.N
		r := new(big.Int)
		switch op {
		case "bvadd":
			r.Add(x, y)
		case "bvsub":
			r.Sub(x, y)
		case "bvmul":
			r.Mul(x, y)
		case "bvand":
			r.And(x, y)
		case "bvor":
			r.Or(x, y)
		case "bvxor":
			r.Xor(x, y)
		case "bvudiv":
			if y.Sign() == 0 {
				return &Term{Op: op, Args: []*Term{a, b}, S: a.S}
			}
			r.Quo(x, y)
		case "bvurem":
			if y.Sign() == 0 {
				return &Term{Op: op, Args: []*Term{a, b}, S: a.S}
			}
			r.Rem(x, y)
		case "bvsdiv":
			if y.Sign() == 0 {
				return &Term{Op: op, Args: []*Term{a, b}, S: a.S}
			}
			r.Quo(a.Signed(), b.Signed())
		case "bvsrem":
			if y.Sign() == 0 {
				return &Term{Op: op, Args: []*Term{a, b}, S: a.S}
			}
			r.Rem(a.Signed(), b.Signed())
		case "bvshl":
			if y.Cmp(big.NewInt(int64(w))) >= 0 {
				r.SetInt64(0)
			} else {
				r.Lsh(x, uint(y.Uint64()))
			}
		case "bvlshr":
			if y.Cmp(big.NewInt(int64(w))) >= 0 {
				r.SetInt64(0)
			} else {
				r.Rsh(x, uint(y.Uint64()))
			}
		case "bvashr":
			sh := uint(w)
			if y.Cmp(big.NewInt(int64(w))) < 0 {
				sh = uint(y.Uint64())
			}
			r.Rsh(a.Signed(), sh)
		default:
			panic("bvBin fold " + op)
		}
		return BVConst(r, w)
	}
	// identities
	switch op {
	case "bvadd", "bvor", "bvxor":
		if a.IsConst() && a.N.Sign() == 0 {
			return b
		}
		if b.IsConst() && b.N.Sign() == 0 {
			return a
		}
	case "bvsub":
		if b.IsConst() && b.N.Sign() == 0 {
			return a
		}
	case "bvshl", "bvlshr":
		if b.IsConst() && b.N.Sign() == 0 {
			return a
		}
		if b.IsConst() && b.N.IsUint64() {
			k := int(b.N.Uint64())
			if k >= w {
				return BVU(0, w)
			}
			if op == "bvlshr" {
				return Concat(BVU(0, k), Extract(a, w-1, k))
			}
			return Concat(Extract(a, w-1-k, 0), BVU(0, k))
		}
	case "bvand":
		if b.IsConst() && b.N.Cmp(mask(w)) == 0 {
			return a
		}
		if a.IsConst() && a.N.Cmp(mask(w)) == 0 {
			return b
		}
		if (b.IsConst() && b.N.Sign() == 0) || (a.IsConst() && a.N.Sign() == 0) {
			return BVU(0, w)
		}
	case "bvmul":
		if b.IsConst() && b.N.Cmp(big.NewInt(1)) == 0 {
			return a
		}
		if a.IsConst() && a.N.Cmp(big.NewInt(1)) == 0 {
			return b
		}
	}
	return &Term{Op: op, Args: []*Term{a, b}, S: a.S}
}

func BVNot(a *Term) *Term {
	if a.IsConst() {
		return BVConst(new(big.Int).Xor(a.N, mask(a.S.W)), a.S.W)
	}
	return &Term{Op: "bvnot", Args: []*Term{a}, S: a.S}
}
func BVNeg(a *Term) *Term {
	if a.IsConst() {
		return BVConst(new(big.Int).Neg(a.N), a.S.W)
	}
	return &Term{Op: "bvneg", Args: []*Term{a}, S: a.S}
}

func bvCmp(op string, a, b *Term) *Term {
	if a.S != b.S {
		panic(fmt.Sprintf("%s: sort mismatch %s vs %s", op, a.S.SMT(), b.S.SMT()))
	}
	if a.IsConst() && b.IsConst() {
		var c int
		if op[2] == 'u' {
			c = a.N.Cmp(b.N)
		} else {
			c = a.Signed().Cmp(b.Signed())
		}
		switch op[3:] {
		case "lt":
			return BoolT(c < 0)
		case "le":
			return BoolT(c <= 0)
		case "gt":
			return BoolT(c > 0)
		case "ge":
			return BoolT(c >= 0)
		}
	}
	if sameTerm(a, b) {
		return BoolT(op[3:] == "le" || op[3:] == "ge")
	}
	if a.S.W >= 128 && op[2] == 'u' {
		// wide unsigned comparisons (32-byte hashes / tree nodes): an uninterpreted strict total order instead
		// of a bit-blasted 256-bit comparator. Only consistency of the order matters to the code; instance
		// axioms give trichotomy. Counterexamples are re-validated natively with the real byte order.
		lt := func(x, y *Term) *Term { return App(fmt.Sprintf("bvlt%d", x.S.W), BoolSort, x, y) }
		switch op[3:] {
		case "lt":
			return lt(a, b)
		case "gt":
			return lt(b, a)
		case "le":
			return Not(lt(b, a))
		default:
			return Not(lt(a, b))
		}
	}
	if a.Op == "ite" && b.IsConst() && iteOfConsts(a) {
		return Ite(a.Args[0], bvCmp(op, a.Args[1], b), bvCmp(op, a.Args[2], b))
	}
	if b.Op == "ite" && a.IsConst() && iteOfConsts(b) {
		return Ite(b.Args[0], bvCmp(op, a, b.Args[1]), bvCmp(op, a, b.Args[2]))
	}
	return &Term{Op: op, Args: []*Term{a, b}, S: BoolSort}
}

func Extract(a *Term, hi, lo int) *Term {
	w := hi - lo + 1
	if lo == 0 && w == a.S.W {
		return a
	}
	if a.IsConst() {
		r := new(big.Int).Rsh(a.N, uint(lo))
		return BVConst(r, w)
	}
	if a.Op == "extract" {
		return Extract(a.Args[0], a.Lo+hi, a.Lo+lo)
	}
	if a.Op == "concat" {
		// args are high..low
		pos := a.S.W
		var parts []*Term
		for _, p := range a.Args {
			phi := pos - 1
			plo := pos - p.S.W
			pos = plo
			if phi < lo || plo > hi {
				continue
			}
			h := min(hi, phi) - plo
			l := max(lo, plo) - plo
			parts = append(parts, Extract(p, h, l))
		}
		return Concat(parts...)
	}
	if a.Op == "zero_extend" {
		iw := a.Args[0].S.W
		if hi < iw {
			return Extract(a.Args[0], hi, lo)
		}
		if lo >= iw {
			return BVU(0, w)
		}
	}
	return &Term{Op: "extract", Args: []*Term{a}, S: BV(w), Hi: hi, Lo: lo}
}

// Concat: arguments from most significant to least significant.
func Concat(xs ...*Term) *Term {
	var flat []*Term
	for _, x := range xs {
		if x.Op == "concat" {
			flat = append(flat, x.Args...)
		} else {
			flat = append(flat, x)
		}
	}
	// merge adjacent constants and adjacent extracts of the same term
	var out []*Term
	for _, x := range flat {
		if len(out) > 0 {
			p := out[len(out)-1]
			if p.IsConst() && x.IsConst() {
				v := new(big.Int).Lsh(p.N, uint(x.S.W))
				v.Or(v, x.N)
				out[len(out)-1] = BVConst(v, p.S.W+x.S.W)
				continue
			}
			if p.Op == "extract" && x.Op == "extract" && p.Lo == x.Hi+1 && sameTerm(p.Args[0], x.Args[0]) {
				out[len(out)-1] = Extract(p.Args[0], p.Hi, x.Lo)
				continue
			}
		}
		out = append(out, x)
	}
	if len(out) == 1 {
		return out[0]
	}
	w := 0
	for _, x := range out {
		w += x.S.W
	}
	return &Term{Op: "concat", Args: out, S: BV(w)}
}

func ZeroExt(a *Term, w int) *Term {
	if a.S.W == w {
		return a
	}
	if a.S.W > w {
		return Extract(a, w-1, 0)
	}
	if a.IsConst() {
		return BVConst(a.N, w)
	}
	return &Term{Op: "zero_extend", Args: []*Term{a}, S: BV(w), Hi: w - a.S.W}
}

func SignExt(a *Term, w int) *Term {
	if a.S.W == w {
		return a
	}
	if a.S.W > w {
		return Extract(a, w-1, 0)
	}
	if a.IsConst() {
		return BVConst(a.Signed(), w)
	}
	return &Term{Op: "sign_extend", Args: []*Term{a}, S: BV(w), Hi: w - a.S.W}
}

// ---------- integers ----------

func intBin(op string, a, b *Term) *Term {
	if a.IsConst() && b.IsConst() {
		r := new(big.Int)
		switch op {
		case "+":
			return IntConst(r.Add(a.N, b.N))
		case "-":
			return IntConst(r.Sub(a.N, b.N))
		case "*":
			return IntConst(r.Mul(a.N, b.N))
		case "div": // SMT-LIB floor-ish (euclidean) division
			if b.N.Sign() != 0 {
				q, _ := new(big.Int).DivMod(a.N, b.N, new(big.Int))
				return IntConst(q)
			}
		case "mod":
			if b.N.Sign() != 0 {
				_, m := new(big.Int).DivMod(a.N, b.N, new(big.Int))
				return IntConst(m)
			}
		}
	}
	switch op {
	case "+":
		if a.IsConst() && a.N.Sign() == 0 {
			return b
		}
		if b.IsConst() && b.N.Sign() == 0 {
			return a
		}
	case "-":
		if b.IsConst() && b.N.Sign() == 0 {
			return a
		}
	case "*":
		if a.IsConst() && a.N.Cmp(big.NewInt(1)) == 0 {
			return b
		}
		if b.IsConst() && b.N.Cmp(big.NewInt(1)) == 0 {
			return a
		}
	}
	return &Term{Op: op, Args: []*Term{a, b}, S: IntSort}
}

func IAdd(a, b *Term) *Term { return intBin("+", a, b) }
func ISub(a, b *Term) *Term { return intBin("-", a, b) }
func IMul(a, b *Term) *Term { return intBin("*", a, b) }
func IDiv(a, b *Term) *Term { return intBin("div", a, b) }
func IMod(a, b *Term) *Term { return intBin("mod", a, b) }
func INeg(a *Term) *Term    { return ISub(IntI(0), a) }

func intCmp(op string, a, b *Term) *Term {
	if a.IsConst() && b.IsConst() {
		c := a.N.Cmp(b.N)
		switch op {
		case "<":
			return BoolT(c < 0)
		case "<=":
			return BoolT(c <= 0)
		case ">":
			return BoolT(c > 0)
		case ">=":
			return BoolT(c >= 0)
		}
	}
	if sameTerm(a, b) {
		return BoolT(op == "<=" || op == ">=")
	}
	return &Term{Op: op, Args: []*Term{a, b}, S: BoolSort}
}
func ILt(a, b *Term) *Term { return intCmp("<", a, b) }
func ILe(a, b *Term) *Term { return intCmp("<=", a, b) }
func IGt(a, b *Term) *Term { return intCmp(">", a, b) }
func IGe(a, b *Term) *Term { return intCmp(">=", a, b) }

// BV → Int
func BV2Nat(a *Term) *Term {
	if a.IsConst() {
		return IntConst(a.N)
	}
	return &Term{Op: "bv2nat", Args: []*Term{a}, S: IntSort}
}

// signed interpretation of a BV as Int
func BV2Int(a *Term) *Term {
	if a.IsConst() {
		return IntConst(a.Signed())
	}
	w := a.S.W
	two := IntConst(new(big.Int).Lsh(big.NewInt(1), uint(w)))
	n := BV2Nat(a)
	neg := bvCmp("bvslt", a, BVU(0, w))
	return Ite(neg, ISub(n, two), n)
}

// UF application
func App(name string, s Sort, args ...*Term) *Term {
	return &Term{Op: name, Args: args, S: s}
}

func pow2(n int) *big.Int { return new(big.Int).Lsh(big.NewInt(1), uint(n)) }

// collect walks the term DAG
func (t *Term) walk(seen map[*Term]bool, f func(*Term)) {
	if seen[t] {
		return
	}
	seen[t] = true
	for _, a := range t.Args {
		a.walk(seen, f)
	}
	f(t)
}
