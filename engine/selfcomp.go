package main

import (
	"fmt"
	"go/types"
	"os"
	"sort"

	"golang.org/x/tools/go/ssa"
)

// Self-composition support (C18): deep, structural equality of two observations of the same step executed
// twice from the same pre-state with independent copies of the oracle symbols (map order, wall clock, ...).

// deepEq: structural equality (pointers are followed, slices compared element-wise, nil == empty slice —
// what a byte-level serialisation of the value would distinguish).
func (e *Exec) deepEq(a, b Value, depth int) *Term {
	if depth > 12 {
		e.unsupported("deepEq: value too deep")
	}
	switch x := a.(type) {
	case nil:
		switch y := b.(type) {
		case nil:
			return True
		case Ptr:
			return BoolT(y.O == nil)
		case IfaceV:
			return BoolT(y.V == nil)
		}
		return e.mismatch(1, a, b)
	case *Term:
		y, ok := b.(*Term)
		if !ok {
			return e.mismatch(2, a, b)
		}
		return e.eqValue(x, y)
	case Ptr:
		y, ok := b.(Ptr)
		if !ok {
			if b == nil {
				return BoolT(x.O == nil)
			}
			return e.mismatch(3, a, b)
		}
		if x.O == nil || y.O == nil {
			return BoolT(x.O == nil && y.O == nil)
		}
		return e.deepEq(e.load(x), e.load(y), depth+1)
	case *StructV:
		y, ok := b.(*StructV)
		if !ok || len(x.F) != len(y.F) {
			return e.mismatch(4, a, b)
		}
		var cs []*Term
		for i := range x.F {
			cs = append(cs, e.deepEq(x.F[i], y.F[i], depth+1))
		}
		return And(cs...)
	case *ArrayV:
		y, ok := b.(*ArrayV)
		if !ok || len(x.E) != len(y.E) {
			return e.mismatch(5, a, b)
		}
		var cs []*Term
		for i := range x.E {
			cs = append(cs, e.deepEq(x.E[i], y.E[i], depth+1))
		}
		return And(cs...)
	case TupleV:
		y, ok := b.(TupleV)
		if !ok || len(x) != len(y) {
			return e.mismatch(6, a, b)
		}
		var cs []*Term
		for i := range x {
			cs = append(cs, e.deepEq(x[i], y[i], depth+1))
		}
		return And(cs...)
	case IfaceV:
		y, ok := b.(IfaceV)
		if !ok {
			if b == nil {
				return BoolT(x.V == nil)
			}
			return e.mismatch(7, a, b)
		}
		if x.V == nil || y.V == nil {
			return BoolT(x.V == nil && y.V == nil)
		}
		if x.T != nil && y.T != nil && !types.Identical(x.T, y.T) {
			return e.mismatch(8, a, b)
		}
		return e.deepEq(x.V, y.V, depth+1)
	case *SliceV:
		y, ok := b.(*SliceV)
		if !ok {
			return e.mismatch(9, a, b)
		}
		if x.Op != nil || y.Op != nil {
			if e.isByteSliceOrOpaque(x) && e.isByteSliceOrOpaque(y) {
				return Eq(e.bytesTerm(x), e.bytesTerm(y))
			}
			return e.mismatch(10, a, b)
		}
		lx, ly := x.Len, y.Len
		if x.Nil {
			lx = 0
		}
		if y.Nil {
			ly = 0
		}
		if lx != ly {
			return e.mismatch(11, a, b)
		}
		if lx == 0 {
			return True
		}
		ex, ey := e.sliceElems(x), e.sliceElems(y)
		var cs []*Term
		for i := range ex {
			cs = append(cs, e.deepEq(ex[i], ey[i], depth+1))
		}
		return And(cs...)
	case *MapV:
		y, ok := b.(*MapV)
		if !ok {
			return e.mismatch(12, a, b)
		}
		if x.M == nil || y.M == nil {
			return BoolT((x.M == nil || len(x.M.K) == 0) && (y.M == nil || len(y.M.K) == 0))
		}
		if x.M == y.M {
			return True
		}
		if len(x.M.K) != len(y.M.K) {
			return e.mismatch(13, a, b) // association lists hold distinct keys
		}
		var cs []*Term
		for i := range x.M.K {
			var alt []*Term
			for j := range y.M.K {
				alt = append(alt, And(e.deepEq(x.M.K[i], y.M.K[j], depth+1), e.deepEq(x.M.V[i], y.M.V[j], depth+1)))
			}
			cs = append(cs, Or(alt...))
		}
		return And(cs...)
	case *ErrV:
		y, ok := b.(*ErrV)
		if !ok {
			return e.mismatch(14, a, b)
		}
		if x == y {
			return True
		}
		if x.Root != y.Root || x.Code != y.Code {
			return e.mismatch(15, a, b)
		}
		if x.Msg == nil || y.Msg == nil {
			return BoolT(x.Msg == nil && y.Msg == nil)
		}
		return strEq(x.Msg, y.Msg)
	case IntV, DecV, TimeV:
		return e.eqValue(a, b)
	case *ModelObj:
		y, ok := b.(*ModelObj)
		if !ok {
			return e.mismatch(16, a, b)
		}
		if x == y {
			return True
		}
		if x.Kind != y.Kind {
			return e.mismatch(17, a, b)
		}
		keys := map[string]bool{}
		for k := range x.F {
			keys[k] = true
		}
		for k := range y.F {
			keys[k] = true
		}
		var ks []string
		for k := range keys {
			ks = append(ks, k)
		}
		sort.Strings(ks)
		var cs []*Term
		for _, k := range ks {
			xv, ok1 := x.F[k]
			yv, ok2 := y.F[k]
			if !ok1 || !ok2 {
				return e.mismatch(18, a, b)
			}
			cs = append(cs, e.deepEq(xv, yv, depth+1))
		}
		return And(cs...)
	case *FuncV:
		y, ok := b.(*FuncV)
		return BoolT(ok && (x == y || (x != nil && y != nil && x.Fn == y.Fn && x.Name == y.Name)))
	case *CollV:
		y, ok := b.(*CollV)
		return BoolT(ok && x.Name == y.Name)
	case *CtxV:
		_, ok := b.(*CtxV)
		return BoolT(ok)
	}
	e.unsupported(fmt.Sprintf("deepEq on %T / %T", a, b))
	return nil
}

func (e *Exec) mismatch(site int, a, b Value) *Term {
	if e.W.trace {
		fmt.Fprintf(os.Stderr, "deepEq mismatch #%d: %s / %s\n", site, describe(a), describe(b))
	}
	return False
}

func (e *Exec) isByteSliceOrOpaque(s *SliceV) bool {
	return s.Op != nil || s.Nil || s.Len == 0 || e.isByteSlice(s)
}

func sameEntry(e *Exec, a, b *Entry) *Term {
	if a.Present != b.Present {
		if e.W.trace {
			fmt.Fprintf(os.Stderr, "sameEntry: presence differs at key %v\n", a.Key)
		}
		return False
	}
	if !a.Present {
		return True
	}
	return e.deepEq(a.Val, b.Val, 0)
}

// valueAt: condition "store (entries, closed, init) holds the same thing at en.Key as en"
func (e *Exec) sameAt(en *Entry, other *Store, init []*Entry) *Term {
	var alts, none []*Term
	var entries []*Entry
	closed := false
	if other != nil {
		entries, closed = other.Entries, other.Closed
	}
	for _, b := range entries {
		c := keysEq(en.Key, b.Key)
		if c.IsFalse() {
			continue
		}
		alts = append(alts, And(c, sameEntry(e, en, b)))
		none = append(none, Not(c))
	}
	// the other side never touched the key: it still holds the pre-state there
	var rest *Term
	if closed {
		rest = BoolT(!en.Present)
	} else {
		var ialts, inone []*Term
		for _, b := range init {
			touched := false
			for _, x := range entries {
				if len(x.Key) > 0 && len(b.Key) > 0 && &x.Key[0] == &b.Key[0] {
					touched = true
				}
			}
			if touched {
				continue
			}
			c := keysEq(en.Key, b.Key)
			if c.IsFalse() {
				continue
			}
			ialts = append(ialts, And(c, sameEntry(e, en, b)))
			inone = append(inone, Not(c))
		}
		// neither touched by the other side nor ever read from the pre-state: written blind on this side only
		rest = Or(append(ialts, And(append(inone, False)...))...)

	}
	res := Or(append(alts, And(append(none, rest)...))...)
	if e.W.trace && res.IsFalse() {
		ks := ""
		for _, k := range en.Key {
			ks += k.SMT() + " "
		}
		fmt.Fprintf(os.Stderr, "sameAt: definitely different at key %s(present=%v): other side has %d entries, closed=%v\n", ks, en.Present, len(entries), closed)
	}
	return res
}

func (e *Exec) sameState(a, b *State) *Term {
	names := map[string]bool{}
	for n := range a.Stores {
		names[n] = true
	}
	for n := range b.Stores {
		names[n] = true
	}
	var ns []string
	for n := range names {
		ns = append(ns, n)
	}
	sort.Strings(ns)
	var cs []*Term
	for _, n := range ns {
		sa, sb := a.Stores[n], b.Stores[n]
		var init []*Entry
		if a.Init != nil {
			init = a.Init.m[n]
		}
		if sa != nil {
			for _, en := range sa.Entries {
				r := e.sameAt(en, sb, init)
				if e.W.trace && r.IsFalse() {
					fmt.Fprintf(os.Stderr, "sameState: store %s differs (first execution's entry)\n", n)
				}
				cs = append(cs, r)
			}
		}
		if sb != nil {
			for _, en := range sb.Entries {
				r := e.sameAt(en, sa, init)
				if e.W.trace && r.IsFalse() {
					fmt.Fprintf(os.Stderr, "sameState: store %s differs (second execution's entry)\n", n)
				}
				cs = append(cs, r)
			}
		}
	}
	arr := func(x, y *Term) {
		if x == nil && y == nil {
			return
		}
		if x == nil || y == nil {
			cs = append(cs, False)
			return
		}
		if !sameTerm(x, y) {
			cs = append(cs, Eq(x, y))
		}
	}
	arr(a.Bal, b.Bal)
	arr(a.Sup, b.Sup)
	arr(a.Acc, b.Acc)
	arr(a.Meta, b.Meta)
	arr(a.MetaB, b.MetaB)
	arr(a.MetaD, b.MetaD)
	gk := map[string]bool{}
	for k := range a.Ghost {
		gk[k] = true
	}
	for k := range b.Ghost {
		gk[k] = true
	}
	var gks []string
	for k := range gk {
		gks = append(gks, k)
	}
	sort.Strings(gks)
	for _, k := range gks {
		x, ok1 := a.Ghost[k]
		y, ok2 := b.Ghost[k]
		if !ok1 || !ok2 {
			cs = append(cs, False)
			continue
		}
		cs = append(cs, e.deepEq(x, y, 0))
	}
	return And(cs...)
}

func init() {
	// verifSameState(a, b): every store cell, bank ledger and ghost of the two contexts' states is equal
	intrinsics["verifSameState"] = func(e *Exec, fn *ssa.Function, a []Value) []Value {
		ca, cb := ctxOf(e, a[0]), ctxOf(e, a[1])
		return []Value{e.sameState(ca.St, cb.St)}
	}
	// verifSameEvents(a, b): the two contexts emitted the same events in the same order
	intrinsics["verifSameEvents"] = func(e *Exec, fn *ssa.Function, a []Value) []Value {
		ca, cb := ctxOf(e, a[0]), ctxOf(e, a[1])
		if len(ca.Em.Events) != len(cb.Em.Events) {
			return []Value{False}
		}
		var cs []*Term
		for i := range ca.Em.Events {
			cs = append(cs, e.deepEq(ca.Em.Events[i], cb.Em.Events[i], 0))
		}
		return []Value{And(cs...)}
	}
	intrinsics["verifEnvBegin"] = func(e *Exec, fn *ssa.Function, a []Value) []Value { e.envBegin(); return nil }
	intrinsics["verifEnvReplay"] = func(e *Exec, fn *ssa.Function, a []Value) []Value { e.envReplay(); return nil }
	intrinsics["verifGo"] = func(e *Exec, fn *ssa.Function, a []Value) []Value {
		e.callValue(a[0], nil) // sequentially: the goroutine is joined before anything else runs
		return nil
	}
	intrinsics["verifRepeat"] = func(e *Exec, fn *ssa.Function, a []Value) []Value { return []Value{BVU(1, 64)} }
	intrinsics["verifEnvEnd"] = func(e *Exec, fn *ssa.Function, a []Value) []Value { e.envEnd(); return nil }
	// verifDeepEq(x, y any): structural equality of two observations (responses, errors, update lists)
	intrinsics["verifDeepEq"] = func(e *Exec, fn *ssa.Function, a []Value) []Value {
		return []Value{e.deepEq(a[0], a[1], 0)}
	}
}
