package main

import (
	"fmt"
	"go/types"
	"strings"

	"golang.org/x/tools/go/ssa"
)

// ---------- oracle path of opchild (C15): connect codecs / aggregator / oracle keeper as stubs ----------
//
// What is executed from the repository's own SSA: MsgServer.UpdateOracle, L2OracleHandler.UpdateOracle,
// l2connect.ValidateVoteExtensions / GetOracleVotes / WritePrices, HostValidatorStore, UpdateHostValidatorSet.
// What is stubbed (connect / cometbft library code, outside the module):
//   ExtendedCommitCodec.Decode   arbitrary commit info (<= maxlen:Votes votes) or an error, a function of the bytes
//   VoteExtensionCodec.Decode    arbitrary (opaque) vote extension or an error, a function of the bytes
//   VoteAggregator.AggregateOracleVotes   arbitrary price map (timestamp pair present or not, <= 2 other pairs,
//                                nil or non-nil prices) or an error; the votes it was handed are recorded
//   OracleKeeper                 exact table CurrencyPair -> QuotePrice over the modelled state
//   protoio delimited writer     injective uninterpreted function of the CanonicalVoteExtension fields
//   PubKeyFromProto / VerifySignature   uninterpreted sigOK(pk, msg, sig)

const (
	connectCodec = "github.com/skip-mev/connect/v2/abci/strategies/codec."
	connectAgg   = "github.com/skip-mev/connect/v2/abci/strategies/aggregator."
	connectTypes = "github.com/skip-mev/connect/v2/pkg/types"
)

func (e *Exec) recordStub(name string, v Value) { e.extra["stubval:"+name] = v }

func init() {
	// verifStubValue[T](name) (T, bool): what the named stub last produced / was handed on this path
	intrinsics["verifStubValue"] = func(e *Exec, fn *ssa.Function, a []Value) []Value {
		v, ok := e.extra["stubval:"+argStr(e, a[0])]
		if !ok {
			return []Value{e.zero(fn.Signature.Results().At(0).Type()), False}
		}
		return []Value{deepCopy(v.(Value)), True}
	}
	models["opaque:"+connectCodec+"ExtendedCommitCodec.Decode"] = func(e *Exec, a []Value) []Value {
		t := e.W.typeByName("github.com/cometbft/cometbft/abci/types", "ExtendedCommitInfo")
		if e.decideBool(e.fresh("codec.commit.fails", BoolSort)) {
			return []Value{e.zero(t), errIface("", StrLit("extended commit decode error"))}
		}
		n := e.stubCount("commit.decode")
		v := e.symValue(t, fmt.Sprintf("oracle_commit%d", n))
		e.recordStub("ExtendedCommitCodec.Decode", deepCopy(v))
		return []Value{v, nilErr()}
	}
	models["opaque:"+connectCodec+"VoteExtensionCodec.Decode"] = func(e *Exec, a []Value) []Value {
		t := e.W.typeByName("github.com/skip-mev/connect/v2/abci/ve/types", "OracleVoteExtension")
		if e.decideBool(e.fresh("codec.ve.fails", BoolSort)) {
			return []Value{e.zero(t), errIface("", StrLit("vote extension decode error"))}
		}
		return []Value{e.zero(t), nilErr()} // content is only ever looked at by the (stubbed) aggregator
	}
	models["opaque:"+connectAgg+"VoteAggregator.AggregateOracleVotes"] = func(e *Exec, a []Value) []Value {
		e.recordStub("AggregateOracleVotes.votes", a[2])
		cpT := e.W.typeByName(connectTypes, "CurrencyPair")
		if e.decideBool(e.fresh("aggregator.fails", BoolSort)) {
			return []Value{&MapV{}, errIface("", StrLit("aggregation error"))}
		}
		m := &MapObj{KT: cpT}
		if e.decideBool(e.fresh("aggregator.hasTimestamp", BoolSort)) {
			k := e.zero(cpT).(*StructV)
			k.F[0], k.F[1] = StrLit("TIMESTAMP"), StrLit("NANOSECOND")
			ts := e.fresh("aggregator.timestamp", IntSort)
			// the aggregated "price" of the timestamp pair is a UnixNano value: it fits int64
			e.assertPC(And(IGe(ts, IntConst(new(bigInt).Neg(pow2(63)))), ILt(ts, IntConst(pow2(63)))))
			m.K = append(m.K, k)
			m.V = append(m.V, IntV{T: ts})
		}
		lo, hi := 0, 2
		if r, ok := e.cfg.SliceLens["AggregatedPairs"]; ok {
			lo, hi = r[0], r[1]
		}
		n := lo
		if hi > lo {
			tag := e.fresh("aggregator.npairs", IntSort)
			alts := make([]*Term, hi-lo+1)
			for i := range alts {
				alts[i] = Eq(tag, IntI(int64(lo+i)))
			}
			alts[len(alts)-1] = Not(Or(alts[:len(alts)-1]...))
			n = lo + e.decide(alts)
			e.assertPC(Eq(tag, IntI(int64(n))))
		}
		for i := 0; i < n; i++ {
			k := e.zero(cpT).(*StructV)
			k.F[0], k.F[1] = e.fresh(fmt.Sprintf("aggregator.pair%d.base", i), StrSort), e.fresh(fmt.Sprintf("aggregator.pair%d.quote", i), StrSort)
			// map keys are distinct
			for _, o := range m.K {
				ok := o.(*StructV)
				e.assertPC(Not(And(strEq(ok.F[0].(*Term), k.F[0].(*Term)), strEq(ok.F[1].(*Term), k.F[1].(*Term)))))
			}
			var val Value
			if e.decideBool(e.fresh(fmt.Sprintf("aggregator.pair%d.nil", i), BoolSort)) {
				val = nilPtr() // a nil *big.Int
			} else {
				p := e.fresh(fmt.Sprintf("aggregator.pair%d.price", i), IntSort)
				e.assertPC(And(IGe(p, IntI(0)), ILt(p, IntConst(pow2(128)))))
				val = IntV{T: p}
			}
			m.K = append(m.K, k)
			m.V = append(m.V, val)
		}
		return []Value{&MapV{M: m}, nilErr()}
	}
	models[connectTypes+".CurrencyPairFromString"] = func(e *Exec, a []Value) []Value {
		s := asTerm(e, a[0])
		cpT := e.W.typeByName(connectTypes, "CurrencyPair")
		if !s.IsStrLit() {
			e.unsupported("CurrencyPairFromString of a symbolic string")
		}
		parts := strings.Split(s.Str, "/")
		if len(parts) != 2 || parts[0] == "" || parts[1] == "" {
			return []Value{e.zero(cpT), errIface("", StrLit("incorrectly formatted CurrencyPair"))}
		}
		k := e.zero(cpT).(*StructV)
		k.F[0], k.F[1] = StrLit(strings.ToUpper(parts[0])), StrLit(strings.ToUpper(parts[1]))
		return []Value{k, nilErr()}
	}

	// ---- oracle keeper: an exact table over the modelled chain state ----
	priceColl := func(e *Exec) *CollV {
		return &CollV{Name: "OraclePrices", Kind: "map", KT: e.W.typeByName(connectTypes, "CurrencyPair"),
			VT: e.W.typeByName("github.com/skip-mev/connect/v2/x/oracle/types", "QuotePrice")}
	}
	models["oraclekeeper.GetAllCurrencyPairs"] = func(e *Exec, a []Value) []Value {
		// the registered pairs: a fixed list of <= maxlen:CurrencyPairs distinct pairs (the same on every call)
		if v, ok := e.extra["oracle.pairs"]; ok {
			return []Value{v.(Value)}
		}
		cpT := e.W.typeByName(connectTypes, "CurrencyPair")
		lo, hi := 0, 2
		if r, ok := e.cfg.SliceLens["CurrencyPairs"]; ok {
			lo, hi = r[0], r[1]
		}
		n := lo
		if hi > lo {
			tag := e.fresh("oraclekeeper.npairs", IntSort)
			alts := make([]*Term, hi-lo+1)
			for i := range alts {
				alts[i] = Eq(tag, IntI(int64(lo+i)))
			}
			alts[len(alts)-1] = Not(Or(alts[:len(alts)-1]...))
			n = lo + e.decide(alts)
			e.assertPC(Eq(tag, IntI(int64(n))))
		}
		arr := &ArrayV{E: make([]Value, n)}
		for i := range arr.E {
			k := e.zero(cpT).(*StructV)
			k.F[0], k.F[1] = e.fresh(fmt.Sprintf("oraclekeeper.pair%d.base", i), StrSort), e.fresh(fmt.Sprintf("oraclekeeper.pair%d.quote", i), StrSort)
			for j := 0; j < i; j++ {
				o := arr.E[j].(*StructV)
				e.assertPC(Not(And(strEq(o.F[0].(*Term), k.F[0].(*Term)), strEq(o.F[1].(*Term), k.F[1].(*Term)))))
			}
			arr.E[i] = k
		}
		var out Value = &SliceV{Nil: true}
		if n > 0 {
			out = &SliceV{A: e.newObj(arr, "currencyPairs"), Len: n, Cap: n}
		}
		e.extra["oracle.pairs"] = out
		return []Value{out}
	}
	models["oraclekeeper.GetPriceForCurrencyPair"] = func(e *Exec, a []Value) []Value {
		coll := priceColl(e)
		en := e.lookupEntry(ctxOf(e, a[1]), coll, a[2])
		if en == nil || !en.Present {
			return []Value{e.zero(coll.VT), errIface("", StrLit("no price for the currency pair"))}
		}
		return []Value{deepCopy(en.Val), nilErr()}
	}
	models["oraclekeeper.SetPriceForCurrencyPair"] = func(e *Exec, a []Value) []Value {
		if e.cfg.Opts["fault:SetPrice"] != 0 && e.decideBool(e.fresh("oraclekeeper.setFails", BoolSort)) {
			return []Value{errIface("", StrLit("oracle keeper refused the price"))}
		}
		e.setEntry(ctxOf(e, a[1]), priceColl(e), a[2], a[3])
		return []Value{nilErr()}
	}

	// ---- canonical vote extension sign bytes ----
	// bytes.Buffer + protoio.NewDelimitedWriter(&buf).WriteMsg(msg) + buf.Bytes(): the buffer ends up holding an
	// injective function of the message fields (length-delimited protobuf is injective on its fields).
	models["github.com/cosmos/gogoproto/io.NewDelimitedWriter"] = func(e *Exec, a []Value) []Value {
		return []Value{IfaceV{V: &ModelObj{Kind: "delimwriter", F: map[string]Value{"buf": a[0]}}}}
	}
	models["delimwriter.WriteMsg"] = func(e *Exec, a []Value) []Value {
		w := a[0].(*ModelObj)
		msg := a[1]
		if iv, ok := msg.(IfaceV); ok {
			msg = iv.V
		}
		p, ok := msg.(Ptr)
		if !ok || p.O == nil {
			e.unsupported("WriteMsg of a non-pointer message")
		}
		sv, ok := e.load(p).(*StructV)
		if !ok {
			e.unsupported("WriteMsg of a non-struct message")
		}
		var args []*Term
		for _, f := range sv.F {
			switch x := f.(type) {
			case *Term:
				args = append(args, x)
			case *SliceV:
				args = append(args, e.bytesTerm(x))
			default:
				e.unsupported(fmt.Sprintf("WriteMsg field of type %T", f))
			}
		}
		enc := App("proto.delimited."+typeKey(sv.T), BytesSort, args...)
		// written into the *bytes.Buffer handed to NewDelimitedWriter
		bufIface, _ := w.F["buf"].(IfaceV)
		bp, ok := bufIface.V.(Ptr)
		if !ok || bp.O == nil {
			e.unsupported("delimited writer over something that is not a *bytes.Buffer")
		}
		e.store(bp, &ModelObj{Kind: "bytesbuffer", F: map[string]Value{"term": enc}})
		return []Value{nilErr()}
	}
	models["(*bytes.Buffer).Bytes"] = func(e *Exec, a []Value) []Value {
		p, ok := a[0].(Ptr)
		if !ok || p.O == nil {
			e.unsupported("Bytes of a nil buffer")
		}
		if m, ok := e.load(p).(*ModelObj); ok && m.Kind == "bytesbuffer" {
			return []Value{&SliceV{Op: m.F["term"].(*Term)}}
		}
		return []Value{&SliceV{Nil: true}} // nothing written yet
	}
	// injectivity of the encoding on the arguments actually compared
	for _, name := range []string{"proto.delimited.github.com/cometbft/cometbft/proto/tendermint/types.CanonicalVoteExtension"} {
		name := name
		instanceAxioms[name] = func(t *Term) []*Term {
			var out []*Term
			for i, arg := range t.Args {
				out = append(out, Eq(App(fmt.Sprintf("%s.inv%d", name, i), arg.S, t), arg))
			}
			return out
		}
	}

	// a symbolic CometBFT proto public key: a supported key (an arbitrary key value) or an unsupported one
	modelTypes["github.com/cometbft/cometbft/proto/tendermint/crypto.PublicKey"] = mt{
		zero: nil,
		sym: func(e *Exec, name string, t types.Type) Value {
			pk := e.zero(t).(*StructV)
			if e.decideBool(e.fresh(name+".supported", BoolSort)) {
				pk.F[0] = IfaceV{V: &ModelObj{Kind: "tmpk", F: map[string]Value{"term": e.fresh(name+".pubkey", pkSort)}}}
			}
			return pk
		},
	}
	// comet public key from its proto form; validator String() in error messages
	models["github.com/cometbft/cometbft/crypto/encoding.PubKeyFromProto"] = func(e *Exec, a []Value) []Value {
		sv, ok := a[0].(*StructV)
		if !ok {
			e.unsupported("PubKeyFromProto argument")
		}
		sum, _ := sv.F[0].(IfaceV)
		m, ok := sum.V.(*ModelObj)
		if !ok || m.Kind != "tmpk" {
			return []Value{IfaceV{}, errIface("", StrLit("unsupported public key type"))}
		}
		return []Value{IfaceV{V: e.newPubKey(m.F["term"].(*Term))}, nilErr()}
	}
	models["github.com/cosmos/cosmos-sdk/crypto/codec.FromCmtProtoPublicKey"] = func(e *Exec, a []Value) []Value {
		sv, ok := a[0].(*StructV)
		if !ok {
			e.unsupported("FromCmtProtoPublicKey argument")
		}
		sum, _ := sv.F[0].(IfaceV)
		m, ok := sum.V.(*ModelObj)
		if !ok || m.Kind != "tmpk" {
			return []Value{IfaceV{}, errIface("", StrLit("unsupported public key type"))}
		}
		return []Value{IfaceV{V: e.newPubKey(m.F["term"].(*Term))}, nilErr()}
	}
	models["(*github.com/cometbft/cometbft/abci/types.Validator).String"] = func(e *Exec, a []Value) []Value {
		return []Value{StrLit("<validator>")}
	}
	models["(github.com/cometbft/cometbft/abci/types.Validator).String"] = models["(*github.com/cometbft/cometbft/abci/types.Validator).String"]
	// sdk.TokensFromConsensusPower(power, DefaultPowerReduction) = power * 10^6 (package variables are not initialised by the executor)
	models["github.com/cosmos/cosmos-sdk/types.TokensFromConsensusPower"] = func(e *Exec, a []Value) []Value {
		p := toIntSigned(asTerm(e, a[0]))
		return []Value{IntV{T: IMul(p, IntI(1000000))}}
	}
	// (*big.Int).Int64: the value when it fits, otherwise unspecified ("undefined" in math/big's contract)
	models["(*math/big.Int).Int64"] = func(e *Exec, a []Value) []Value {
		t := e.intNN(a[0])
		r := e.fresh("bigint.int64", IntSort)
		lo, hi := IntConst(new(bigInt).Neg(pow2(63))), IntConst(pow2(63))
		e.assertPC(And(IGe(r, lo), ILt(r, hi), Implies(And(IGe(t, lo), ILt(t, hi)), Eq(r, t))))
		return []Value{r}
	}
	// (*big.Int).Uint64: the low 64 bits of |x| (math/big calls the result undefined when x does not fit; the
	// implementation returns the low word) — what makes a truncating amount conversion visible
	models["(*math/big.Int).Uint64"] = func(e *Exec, a []Value) []Value {
		t := e.intNN(a[0])
		// in range: the value itself (the same Int->BV link Uint64() of math.Int uses). Out of range: the low word,
		// kept as an uninterpreted function of x — relating it to x arithmetically (mod 2^64 through bv2nat) stalls
		// all three solvers; the native replay computes the real low word, so a counterexample that depends on it
		// is still confirmed or refuted against the real code.
		if e.decideBool(And(IGe(t, IntI(0)), ILt(t, IntConst(pow2(64))))) {
			return []Value{e.intU64(t)}
		}
		return []Value{App("bigint.lo64", BV(64), t)}
	}
	models["(*math/big.Int).IsUint64"] = func(e *Exec, a []Value) []Value {
		t := e.intNN(a[0])
		return []Value{And(IGe(t, IntI(0)), ILt(t, IntConst(pow2(64))))}
	}
	models["(*math/big.Int).IsInt64"] = func(e *Exec, a []Value) []Value {
		t := e.intNN(a[0])
		return []Value{And(IGe(t, IntConst(new(bigInt).Neg(pow2(63)))), ILt(t, IntConst(pow2(63))))}
	}
	models["(*math/big.Int).Sign"] = func(e *Exec, a []Value) []Value {
		t := e.intNN(a[0])
		return []Value{Ite(IGt(t, IntI(0)), BVI(1, 64), Ite(Eq(t, IntI(0)), BVI(0, 64), BVI(-1, 64)))}
	}
	models["(*math/big.Int).Cmp"] = func(e *Exec, a []Value) []Value {
		x, y := e.intNN(a[0]), e.intNN(a[1])
		return []Value{Ite(ILt(x, y), BVI(-1, 64), Ite(Eq(x, y), BVI(0, 64), BVI(1, 64)))}
	}
	models["github.com/cosmos/cosmos-sdk/types.TokensToConsensusPower"] = func(e *Exec, a []Value) []Value {
		t := intOf(e, a[0])
		return []Value{e.intI64(goQuo(t.T, IntI(1000000)))}
	}
}
