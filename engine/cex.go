package main

import (
	"encoding/json"
	"fmt"
	"os"
	"path/filepath"
	"sort"
	"strings"
)

// Counterexample export: everything the native replay needs to rebuild the solver's scenario against the
// real code — model values of all symbols, the facts the model asserts about opaque strings/bytes, the
// initial store entries that were materialised, the bank cells that were read, as terms to be evaluated
// natively (hashes are recomputed with the real sha3 there).

type initRec struct {
	Coll    string
	Key     []*Term
	Present bool
	Val     Value
}

func termJSON(t *Term, memo map[*Term]any) any {
	if v, ok := memo[t]; ok {
		return v
	}
	m := map[string]any{"op": t.Op, "sort": t.S.SMT()}
	switch t.Op {
	case "const":
		if t.S.K == SBool {
			m["v"] = t.B
		} else {
			m["v"] = t.N.String()
		}
	case "sym":
		m["name"] = t.Str
	case "strlit":
		m["v"] = t.Str
	case "extract":
		m["hi"], m["lo"] = t.Hi, t.Lo
	case "zero_extend", "sign_extend":
		m["by"] = t.Hi
	}
	if len(t.Args) > 0 {
		var as []any
		for _, a := range t.Args {
			as = append(as, termJSON(a, memo))
		}
		m["args"] = as
	}
	memo[t] = m
	return m
}

func (e *Exec) valueJSON(v Value, memo map[*Term]any) any {
	switch x := v.(type) {
	case nil:
		return map[string]any{"k": "nil"}
	case *Term:
		return map[string]any{"k": "term", "t": termJSON(x, memo)}
	case *StructV:
		var fs []any
		for _, f := range x.F {
			fs = append(fs, e.valueJSON(f, memo))
		}
		return map[string]any{"k": "struct", "f": fs}
	case *ArrayV:
		var fs []any
		for _, f := range x.E {
			fs = append(fs, e.valueJSON(f, memo))
		}
		return map[string]any{"k": "array", "e": fs}
	case *SliceV:
		if x.Op != nil {
			return map[string]any{"k": "bytes", "t": termJSON(x.Op, memo)}
		}
		var fs []any
		for _, f := range e.sliceElems(x) {
			fs = append(fs, e.valueJSON(f, memo))
		}
		return map[string]any{"k": "slice", "e": fs, "nil": x.Nil}
	case Ptr:
		if x.O == nil {
			return map[string]any{"k": "nil"}
		}
		return map[string]any{"k": "ptr", "v": e.valueJSON(e.peek(x), memo)}
	case IntV:
		if x.Nil {
			return map[string]any{"k": "int", "nil": true}
		}
		return map[string]any{"k": "int", "t": termJSON(x.T, memo)}
	case DecV:
		if x.Nil {
			return map[string]any{"k": "dec", "nil": true}
		}
		return map[string]any{"k": "dec", "t": termJSON(x.T, memo)}
	case TimeV:
		return map[string]any{"k": "time", "sec": termJSON(x.Sec, memo), "nsec": termJSON(x.Nsec, memo)}
	case IfaceV:
		if x.V == nil {
			return map[string]any{"k": "nil"}
		}
		return e.valueJSON(x.V, memo)
	case *ModelObj:
		m := map[string]any{"k": "model", "kind": x.Kind, "name": x.Name}
		if t, ok := x.F["term"].(*Term); ok {
			m["t"] = termJSON(t, memo)
		}
		fs := map[string]any{}
		for k, f := range x.F {
			if k != "term" {
				fs[k] = e.valueJSON(f, memo)
			}
		}
		m["f"] = fs
		return m
	}
	return map[string]any{"k": "unsupported", "go": fmt.Sprintf("%T", v)}
}

var constructorOps = map[string]bool{"b.cat": true, "b.ofstr": true, "b.empty": true, "str.cat": true, "str.u64": true, "str.int": true, "str.hex": true, "str.ofb": true, "modaddr": true, "modaddr0": true, "pk.addr": true, "pk.bytes": true}

// entailed: does the path condition (plus the negated assertion) force eq?
func (e *Exec) entailed(negated *Term, eq *Term) bool {
	q := Not(eq)
	if negated != nil {
		q = And(negated, q)
	}
	return e.sol.Check(q) == "unsat"
}

func isHashOp(op string) bool {
	op = strings.TrimPrefix(op, "I")
	if !strings.HasPrefix(op, "H") || len(op) < 2 {
		return false
	}
	rest := op[1:]
	if rest == "b" {
		return true
	}
	for _, c := range rest {
		if c < '0' || c > '9' {
			return false
		}
	}
	return true
}

func isConstructor(t *Term) bool {
	if t.Op == "strlit" || constructorOps[t.Op] || isBOf(t) {
		return true
	}
	return strings.HasPrefix(t.Op, "addr.of.") || strings.HasPrefix(t.Op, "addr.str.")
}

// buildCex must be called inside the solver scope in which the violating model was found: it re-asks the
// same query with more get-values. To keep the solver layer simple it re-runs CheckModel with the full list.
func (e *Exec) buildCex(label string, negated *Term) map[string]any {
	memo := map[*Term]any{}
	// candidate terms: every subterm of the path condition / assertion
	seen := map[*Term]bool{}
	var all []*Term
	collect := func(t *Term) {
		t.walk(seen, func(u *Term) { all = append(all, u) })
	}
	for _, p := range e.pc {
		collect(p)
	}
	if negated != nil {
		collect(negated)
	}
	for _, r := range e.inits {
		for _, k := range r.Key {
			collect(k)
		}
	}
	for _, s := range e.syms {
		collect(s)
	}
	declaredFun := map[string]bool{}
	argOf := map[string]map[string]bool{} // op -> keys of the terms it is applied to on this path
	var ctors []*Term
	var selects []*Term
	var hashes []*Term
	for _, u := range all {
		if u.Op != "sym" && u.Op != "const" && u.Op != "strlit" {
			declaredFun[u.Op] = true
			if (u.Op == "str.trim" || u.Op == "str.lower" || u.Op == "str.hasupper") && len(u.Args) == 1 {
				if argOf[u.Op] == nil {
					argOf[u.Op] = map[string]bool{}
				}
				argOf[u.Op][u.Args[0].Key()] = true
			}
		}
		if (u.S == StrSort || u.S == BytesSort) && isConstructor(u) {
			ctors = append(ctors, u)
		}
		if u.Op == "select" && (u.S.K != SUn || u.S == StrSort) {
			selects = append(selects, u)
		}
		if u.S.K == SBV && isHashOp(u.Op) {
			hashes = append(hashes, u)
		}
	}
	// a balance read through a chain of updates still depends on the initial ledger at the same cell: ask for that
	// base cell too, so that the native side can fund it
	rootOf := func(t *Term) *Term {
		for t.Op == "store" {
			t = t.Args[0]
		}
		return t
	}
	seenBase := map[string]bool{}
	for _, u := range append([]*Term{}, selects...) {
		if len(u.Args) != 2 {
			continue
		}
		inner := u.Args[0]
		if inner.Op == "select" && len(inner.Args) == 2 && inner.Args[0].Op == "store" {
			if r := rootOf(inner.Args[0]); r.Op == "sym" {
				base := sel(sel(r, inner.Args[1], inner.S), u.Args[1], u.S)
				if k := base.SMT(); !seenBase[k] {
					seenBase[k] = true
					selects = append(selects, base)
				}
			}
		}
	}
	// queries
	var want []*Term
	add := func(t *Term) { want = append(want, t) }
	for _, s := range e.syms {
		if s.S.K == SUn && strings.HasPrefix(s.S.Name, "(") {
			continue
		}
		add(s)
	}
	type fact struct {
		sym  *Term
		name string
		t    *Term
	}
	var facts []fact
	for _, s := range e.syms {
		switch s.S {
		case StrSort:
			for _, k := range []string{"acc", "val", "cons"} {
				if declaredFun["addr.valid."+k] {
					facts = append(facts, fact{s, "addr.valid." + k, App("addr.valid."+k, BoolSort, s)})
					facts = append(facts, fact{s, "addr.of." + k, App("addr.of."+k, BytesSort, s)})
				}
			}
			if declaredFun["addr.valid.acc"] || declaredFun["addr.valid.val"] || declaredFun["addr.valid.cons"] {
				facts = append(facts, fact{s, "noncanon", App("addr.noncanon", BoolSort, s)})
			}
			if declaredFun["validDenom"] {
				facts = append(facts, fact{s, "validDenom", App("validDenom", BoolSort, s)})
			}
			if declaredFun["str.len"] || declaredFun["str.trim"] {
				facts = append(facts, fact{s, "len", App("str.len", IntSort, s)})
			}
			if declaredFun["str.ord"] {
				facts = append(facts, fact{s, "ord", App("str.ord", IntSort, s)})
			}
			// facts about trimming / case only for the strings the path trims or lower-cases (for any other string
			// the model's value of these functions is arbitrary and must not shape the realisation)
			var upper []*Term
			for _, cand := range []*Term{s, App("str.trim", StrSort, s)} {
				if argOf["str.lower"][cand.Key()] || argOf["str.hasupper"][cand.Key()] {
					upper = append(upper, App("str.hasupper", BoolSort, cand))
				}
			}
			if len(upper) > 0 {
				facts = append(facts, fact{s, "hasupper", Or(upper...)})
			}
			if argOf["str.trim"][s.Key()] {
				facts = append(facts, fact{s, "trimlen", App("str.len", IntSort, App("str.trim", StrSort, s))})
			}
		case BytesSort:
			if declaredFun["b.len"] {
				facts = append(facts, fact{s, "len", App("b.len", IntSort, s)})
			}
			if declaredFun["bank.blocked"] {
				facts = append(facts, fact{s, "blocked", App("bank.blocked", BoolSort, s)})
			}
		}
	}
	for _, f := range facts {
		add(f.t)
	}
	for _, c := range ctors {
		add(c)
	}
	for _, s := range selects {
		add(s)
	}
	for _, h := range hashes {
		add(h)
	}
	// applications of uninterpreted functions to plain symbols (stub decisions such as msg.signer0(m))
	var blockedApps []*Term
	for _, u := range all {
		if u.Op == "bank.blocked" {
			blockedApps = append(blockedApps, u)
			add(u)
			add(u.Args[0])
		}
	}
	var appTerms []*Term
	for _, u := range all {
		if u.Op == "sym" || u.Op == "const" || u.Op == "strlit" || builtinOps[u.Op] || len(u.Args) == 0 || len(u.Args) > 3 {
			continue
		}
		okArgs := true
		for _, a := range u.Args {
			if a.Op != "sym" && a.Op != "const" && a.Op != "strlit" {
				okArgs = false
			}
		}
		if okArgs && !isConstructor(u) && !isHashOp(u.Op) {
			appTerms = append(appTerms, u)
		}
	}
	for _, u := range appTerms {
		add(u)
	}
	// signature checks: which (key, message, signature) triples the model accepts; the native side produces
	// real signatures for exactly those
	var sigApps []*Term
	for _, u := range all {
		if u.Op == "pk.sigOK" {
			sigApps = append(sigApps, u)
			add(u)
			add(u.Args[0])
			add(u.Args[2])
		}
	}
	// model hygiene: the three address codecs have distinct human-readable prefixes, so the counterexample asked
	// for does not make one string valid under two of them (the solver is otherwise free to, where the path says
	// nothing about the other codec, and such a string cannot be realised natively)
	hygiene := []*Term{}
	kinds := []string{"acc", "val", "cons"}
	for _, s := range e.syms {
		if s.S != StrSort {
			continue
		}
		for i, k := range kinds {
			for _, k2 := range kinds[i+1:] {
				if declaredFun["addr.valid."+k] && declaredFun["addr.valid."+k2] {
					hygiene = append(hygiene, Not(And(App("addr.valid."+k, BoolSort, s), App("addr.valid."+k2, BoolSort, s))))
				}
			}
		}
	}
	r, vals := "", map[string]string(nil)
	if len(hygiene) > 0 {
		if negated != nil {
			hygiene = append(hygiene, negated)
		}
		r, vals = e.sol.CheckModel(And(hygiene...), want)
	}
	if r != "sat" {
		r, vals = e.sol.CheckModel(negated, want)
	}
	if r != "sat" {
		return nil
	}
	syms := map[string]any{}
	for _, s := range e.syms {
		if s.S.K == SUn && strings.HasPrefix(s.S.Name, "(") {
			continue
		}
		ent := map[string]any{"sort": s.S.SMT(), "v": vals[s.SMT()]}
		if s.S.K == SBV {
			// a symbol the model made equal to a hash image is exported as that hash application, so that
			// the native side recomputes it with the real sha3
			for _, h := range hashes {
				if h.S == s.S && vals[h.SMT()] == vals[s.SMT()] && e.entailed(negated, Eq(s, h)) {
					ent["expr"] = termJSON(h, memo)
					break
				}
			}
		}
		syms[s.Str] = ent
	}
	for _, f := range facts {
		ent := syms[f.sym.Str].(map[string]any)
		fm, _ := ent["facts"].(map[string]any)
		if fm == nil {
			fm = map[string]any{}
			ent["facts"] = fm
		}
		fm[f.name] = vals[f.t.SMT()]
	}
	// constructed terms with their model value ids: the native side uses them to give opaque symbols that
	// the model made equal to a constructed value (a literal, a hash image, a derived address) that value
	var cj []any
	for _, c := range ctors {
		// keep a constructed term only if the path forces some symbol to equal it (or it is a literal)
		if c.Op != "strlit" {
			forced := false
			for _, s := range e.syms {
				if s.S == c.S && vals[s.SMT()] == vals[c.SMT()] && e.entailed(negated, Eq(s, c)) {
					forced = true
					break
				}
			}
			if !forced {
				continue
			}
		}
		cj = append(cj, map[string]any{"id": vals[c.SMT()], "sort": c.S.SMT(), "t": termJSON(c, memo)})
	}
	var sj []any
	for _, s := range selects {
		sj = append(sj, map[string]any{"t": termJSON(s, memo), "v": vals[s.SMT()]})
	}
	stores := map[string][]any{}
	for _, r := range e.inits {
		var ks []any
		for _, k := range r.Key {
			ks = append(ks, termJSON(k, memo))
		}
		stores[r.Coll] = append(stores[r.Coll], map[string]any{"key": ks, "present": r.Present, "val": e.valueJSON(r.Val, memo)})
	}
	var aj []any
	for _, u := range appTerms {
		var names []any
		for _, a := range u.Args {
			if a.Op == "sym" {
				names = append(names, a.Str)
			} else {
				names = append(names, a.SMT())
			}
		}
		aj = append(aj, map[string]any{"op": u.Op, "args": names, "v": vals[u.SMT()], "sort": u.S.SMT()})
	}
	var bj []any
	for _, u := range blockedApps {
		bj = append(bj, map[string]any{"id": vals[u.Args[0].SMT()], "v": vals[u.SMT()]})
	}
	var gj []any
	for _, u := range sigApps {
		gj = append(gj, map[string]any{"pk": vals[u.Args[0].SMT()], "msg": termJSON(u.Args[1], memo), "sig": vals[u.Args[2].SMT()], "v": vals[u.SMT()]})
	}
	return map[string]any{
		"harness": e.harness, "label": label, "decisions": e.decisions,
		"syms": syms, "ctors": cj, "selects": sj, "stores": stores, "apps": aj, "blocked": bj, "sigs": gj,
	}
}

var cexDir string
var cexCount = map[string]int{}

func (e *Exec) writeCex(label string, cex map[string]any) string {
	if cexDir == "" || cex == nil {
		return ""
	}
	e.W.mu.Lock()
	// the budget of counterexample files is per assertion label, so that one frequently violated assertion
	// does not crowd out the others of the same harness
	cexCount[e.harness+"|"+label]++
	n := cexCount[e.harness+"|"+label]
	cexCount[e.harness]++
	seq := cexCount[e.harness]
	e.W.mu.Unlock()
	if n > e.W.maxCex {
		return ""
	}
	os.MkdirAll(cexDir, 0o755)
	p := filepath.Join(cexDir, fmt.Sprintf("%s-%d.json", e.harness, seq))
	b, _ := json.MarshalIndent(cex, "", " ")
	os.WriteFile(p, b, 0o644)
	return p
}

func sortedInts(m map[int]bool) []int {
	var out []int
	for k := range m {
		out = append(out, k)
	}
	sort.Ints(out)
	return out
}
