package main

import (
	"encoding/json"
	"flag"
	"fmt"
	"os"
	"path/filepath"
	"regexp"
	"runtime/debug"
	"sort"
	"strings"
	"sync"
	"time"

	"golang.org/x/tools/go/packages"
	"golang.org/x/tools/go/ssa"
	"golang.org/x/tools/go/ssa/ssautil"
)

type World struct {
	prog          *ssa.Program
	pkgs          []*ssa.Package
	mu            sync.Mutex
	follow        []string
	maxSteps      int
	solver        string
	timeout       int
	tier          string
	maxCex        int
	noMerge       bool
	trace         bool
	branchTimeout int
	witnessEvery  int
	witnessMax    int
	witnessN      map[string]int
	seed          int
}

// packages whose functions are executed from SSA when no model is registered
var followPrefixes = []string{
	"github.com/initia-labs/OPinit",
	"github.com/cosmos/cosmos-sdk/types", // Coin, Coins, events, errors (exact sub-packages filtered below)
	"cosmossdk.io/store/types",           // gas meters
	"cosmossdk.io/collections",           // Join/Pair helpers (Map/Item/Sequence are models)
	"cosmossdk.io/errors",
	"sort", "slices", "bytes", "strings", "encoding/binary", "math/bits", "math", "errors", "cmp", "unicode/utf8", "strconv",
	"github.com/cometbft/cometbft/abci/types",
	"github.com/cometbft/cometbft/proto/tendermint",
	"github.com/cosmos/cosmos-sdk/x/staking/types",
	"github.com/cosmos/cosmos-sdk/x/auth/types",
	"github.com/cosmos/cosmos-sdk/x/bank/types",
	"github.com/cosmos/cosmos-sdk/codec/types",
	"github.com/cosmos/cosmos-sdk/x/authz",
	"github.com/skip-mev/block-sdk",
	"github.com/skip-mev/connect",
}

func (w *World) followPkg(path string) bool {
	for _, p := range w.follow {
		if path == p || strings.HasPrefix(path, p+"/") {
			return true
		}
	}
	return false
}

func (w *World) build(fn *ssa.Function) {
	w.mu.Lock()
	defer w.mu.Unlock()
	if fn.Pkg != nil {
		fn.Pkg.Build()
	} else if o := fn.Origin(); o != nil && o.Pkg != nil {
		o.Pkg.Build()
	}
}

type HarnessCfg struct {
	Unwind           int
	MapOrderSymbolic bool
	Stores           map[string]int // closed-world stores: name → slots
	SliceLens        map[string][2]int
	IdealHash        bool
	Opts             map[string]int
}

func defaultCfg() *HarnessCfg {
	return &HarnessCfg{Unwind: 8, Stores: map[string]int{}, SliceLens: map[string][2]int{}, Opts: map[string]int{}}
}

type HarnessReport struct {
	Harness     string         `json:"harness"`
	Paths       int            `json:"paths"`
	Statuses    map[string]int `json:"statuses"`
	Forks       int            `json:"forks"`
	Asserts     map[string]int `json:"asserts"` // proved/trivial/violated/unknown
	Violations  []AssertRec    `json:"violations,omitempty"`
	Unknown     []AssertRec    `json:"unknown,omitempty"`
	Reached     []string       `json:"reached"`
	Unsupported []string       `json:"unsupported,omitempty"`
	Unwinds     []string       `json:"unwinds,omitempty"`
	Funcs       []string       `json:"functions_encoded"`
	Stubs       []string       `json:"stubs"`
	Solver      map[string]any `json:"solver"`
	WallS       float64        `json:"wall_s"`
	Samples     []any          `json:"samples,omitempty"`
	BranchUnk   int            `json:"branch_unknowns"`
	Steps       int            `json:"ssa_steps"`
	KnownHit    []string       `json:"known_hit,omitempty"`
	Labels      map[string]int `json:"assert_labels"`
	Truncated   bool           `json:"truncated,omitempty"`
	ForkSites   map[string]int `json:"fork_sites,omitempty"`
}

func (w *World) runPath(sol *Solver, fn *ssa.Function, prefix []int) (res *PathResult) {
	sol.Reset()
	e := &Exec{W: w, sol: sol, harness: fn.Name(), prefix: prefix, globals: map[*ssa.Global]*Obj{}, symN: map[string]int{}, cfg: defaultCfg(), u64memo: map[string]*Term{}, extra: map[string]any{}, symPtrs: map[string]Ptr{}}
	e.res = &PathResult{Harness: fn.Name(), Funcs: map[string]bool{}, Stubs: map[string]bool{}}
	e.state = newState()
	res = e.res
	defer func() {
		res.Decisions = e.decisions
		res.Steps = e.steps
		if r := recover(); r != nil {
			switch x := r.(type) {
			case *pathEnd:
				res.Status, res.Why = x.Status, x.Why
			case *goPanic:
				res.Status, res.Why = "panic", x.Str
			default:
				res.Status = "engine-error"
				res.Why = fmt.Sprintf("%v\n%s", r, debug.Stack())
			}
		}
	}()
	e.callFn(fn, nil)
	res.Status = "ok"
	// path witness (translator validation): for a seeded sample of completed paths on which no assertion was
	// violated, a model of the path condition is written out; replayed natively, every assertion must hold there
	// too — otherwise a model of the environment hides a behaviour of the real code
	if w.witnessEvery > 0 && cexDir != "" && len(res.Reached) > 0 {
		violated := false
		for _, a := range res.Asserts {
			if a.Result != "proved" && a.Result != "trivial" {
				violated = true
			}
		}
		h := fnv(fmt.Sprint(e.decisions)) + uint64(w.seed)
		if !violated && h%uint64(w.witnessEvery) == 0 {
			if cex := e.buildCex("witness", nil); cex != nil {
				w.mu.Lock()
				n := w.witnessN[fn.Name()]
				w.witnessN[fn.Name()] = n + 1
				w.mu.Unlock()
				if n < w.witnessMax {
					os.MkdirAll(cexDir, 0o755)
					b, _ := json.MarshalIndent(cex, "", " ")
					os.WriteFile(filepath.Join(cexDir, fmt.Sprintf("witness-%s-%d.json", fn.Name(), n+1)), b, 0o644)
				}
			}
		}
	}
	return res
}

func (w *World) explore(fn *ssa.Function, workers int, maxPaths int) *HarnessReport {
	t0 := time.Now()
	rep := &HarnessReport{Harness: fn.Name(), Statuses: map[string]int{}, Asserts: map[string]int{}, Labels: map[string]int{}}
	var mu sync.Mutex
	work := [][]int{nil}
	inflight := 0
	cond := sync.NewCond(&mu)
	funcs, stubs, reached, unsup, unw, known := map[string]bool{}, map[string]bool{}, map[string]bool{}, map[string]bool{}, map[string]bool{}, map[string]bool{}
	solStats := map[string]float64{}
	var wg sync.WaitGroup
	for i := 0; i < workers; i++ {
		wg.Add(1)
		go func() {
			defer wg.Done()
			sol, err := NewSolver(w.solver, w.timeout)
			if err != nil {
				panic(err)
			}
			sol.branchTimeout = w.branchTimeout
			defer sol.Close()
			for {
				mu.Lock()
				for len(work) == 0 && inflight > 0 {
					cond.Wait()
				}
				if len(work) == 0 || rep.Paths >= maxPaths {
					if rep.Paths >= maxPaths && len(work) > 0 {
						rep.Truncated = true
					}
					mu.Unlock()
					cond.Broadcast()
					break
				}
				p := work[len(work)-1]
				work = work[:len(work)-1]
				inflight++
				rep.Paths++
				mu.Unlock()

				r := w.runPath(sol, fn, p)

				mu.Lock()
				inflight--
				work = append(work, r.NewAlts...)
				rep.Statuses[r.Status]++
				rep.Forks += r.Forks
				rep.BranchUnk += r.Unknowns
				rep.Steps += r.Steps
				for k := range r.Funcs {
					funcs[k] = true
				}
				for k := range r.Stubs {
					stubs[k] = true
				}
				for _, k := range r.Reached {
					reached[k] = true
				}
				for _, k := range r.KnownHit {
					known[k] = true
				}
				if rep.ForkSites == nil {
					rep.ForkSites = map[string]int{}
				}
				for k, v := range r.ForkSites {
					rep.ForkSites[k] += v
				}
				switch r.Status {
				case "unsupported":
					unsup[r.Why] = true
				case "unwind", "steps":
					unw[r.Why] = true
				case "engine-error":
					unsup["ENGINE ERROR: "+r.Why] = true
				case "panic":
					unsup["escaping panic: "+r.Why] = true
				}
				for _, a := range r.Asserts {
					rep.Asserts[a.Result]++
					rep.Labels[a.Label]++
					a.Path = r.Decisions
					a.Harness = fn.Name()
					if a.Result == "violated" {
						// keep a few per assertion label (those with a counterexample file first come first)
						nl := 0
						for _, v := range rep.Violations {
							if v.Label == a.Label {
								nl++
							}
						}
						if nl < 4 || (a.Cex != "" && nl < 8) {
							rep.Violations = append(rep.Violations, a)
						}
					} else if a.Result == "unknown" {
						if len(rep.Unknown) < 20 {
							rep.Unknown = append(rep.Unknown, a)
						}
					}
				}
				if len(rep.Samples) < 4 && r.Status == "ok" {
					rep.Samples = append(rep.Samples, map[string]any{"decisions": r.Decisions, "asserts": len(r.Asserts), "reached": r.Reached})
				}
				mu.Unlock()
				cond.Broadcast()
			}
			mu.Lock()
			st := sol.Stats()
			solStats["queries"] += float64(st["queries"].(int))
			solStats["sat"] += float64(st["sat"].(int))
			solStats["unsat"] += float64(st["unsat"].(int))
			solStats["unknown"] += float64(st["unknown"].(int))
			solStats["errors"] += float64(st["errors"].(int))
			solStats["solver_s"] += st["solver_s"].(float64)
			solStats["fresh_retries"] += float64(st["retries"].(int))
			solStats["fresh_retry_wins"] += float64(st["retry_wins"].(int))
			mu.Unlock()
		}()
	}
	wg.Wait()
	rep.Funcs, rep.Stubs, rep.Reached = sortedSet(funcs), sortedSet(stubs), sortedSet(reached)
	rep.Unsupported, rep.Unwinds, rep.KnownHit = sortedSet(unsup), sortedSet(unw), sortedSet(known)
	rep.Solver = map[string]any{"kind": w.solver}
	for k, v := range solStats {
		rep.Solver[k] = v
	}
	rep.WallS = time.Since(t0).Seconds()
	return rep
}

func main() {
	repo := flag.String("repo", "/repo", "repository root")
	pkgPat := flag.String("pkg", "", "package pattern(s), comma separated, relative to repo (e.g. ./x/ophost/types)")
	overlayDir := flag.String("overlay", "", "directory with harness .go files, overlaid into the (first) package directory")
	harnessRe := flag.String("harness", "^Harness_", "regexp selecting harness functions")
	workers := flag.Int("workers", 8, "parallel path workers")
	maxPaths := flag.Int("maxpaths", 20000, "path budget per harness")
	solver := flag.String("solver", "z3", "z3 | z3-new | cvc5")
	timeout := flag.Int("timeout", 20000, "per-query solver timeout (ms)")
	out := flag.String("out", "", "write JSON report here")
	tier := flag.String("tier", "quick", "quick | thorough (visible to harnesses through verifTier)")
	onePath := flag.String("path", "", "run a single path given as comma-separated decisions (debug)")
	smtlog := flag.String("smtlog", "", "log solver input of -path run to this file")
	flag.StringVar(&cexDir, "cexdir", "", "write counterexample files here")
	maxCex := flag.Int("maxcex", 3, "counterexample files per harness")
	branchTO := flag.Int("branch-timeout", 4000, "solver budget (ms) for branch-feasibility queries; unknown keeps the branch")
	known := flag.String("known", "", "known-finding modes: id=exclude|only, comma separated")
	witnessEvery := flag.Int("witness-every", 0, "write a path witness for about one in N completed paths (0 = none)")
	witnessMax := flag.Int("witness-max", 2, "path witnesses per harness")
	seed := flag.Int("seed", 0, "seed for the witness sample")
	flag.Parse()

	t0 := time.Now()
	pats := strings.Split(*pkgPat, ",")
	overlay := map[string][]byte{}
	if *overlayDir != "" {
		// "dir" (into the first package) or "pkg=dir,pkg=dir"
		for _, spec := range strings.Split(*overlayDir, ",") {
			pkg, dir := pats[0], spec
			if i := strings.Index(spec, "="); i > 0 {
				pkg, dir = spec[:i], spec[i+1:]
			}
			files, _ := filepath.Glob(filepath.Join(dir, "*.go"))
			sort.Strings(files)
			target := filepath.Join(*repo, strings.TrimPrefix(pkg, "./"))
			for _, f := range files {
				b, err := os.ReadFile(f)
				if err != nil {
					panic(err)
				}
				overlay[filepath.Join(target, "zz_verif_"+filepath.Base(f))] = b
			}
		}
	}
	env := append(os.Environ(), "GOFLAGS=", "GOPROXY=off", "GOSUMDB=off", "GOTOOLCHAIN=local")
	cfg := &packages.Config{Mode: packages.LoadAllSyntax, Dir: *repo, Env: env, Overlay: overlay, BuildFlags: []string{"-tags=verif"}}
	pkgs, err := packages.Load(cfg, pats...)
	if err != nil {
		fmt.Fprintln(os.Stderr, "load:", err)
		os.Exit(2)
	}
	nerr := 0
	packages.Visit(pkgs, nil, func(p *packages.Package) {
		for _, e := range p.Errors {
			if strings.HasPrefix(p.PkgPath, "github.com/initia-labs/OPinit") {
				fmt.Fprintln(os.Stderr, "package error:", e)
				nerr++
			}
		}
	})
	if nerr > 0 {
		os.Exit(2)
	}
	prog, spkgs := ssautil.AllPackages(pkgs, ssa.InstantiateGenerics)
	w := &World{prog: prog, follow: followPrefixes, maxSteps: 3000000, solver: *solver, timeout: *timeout, tier: *tier, maxCex: *maxCex, branchTimeout: *branchTO,
		witnessEvery: *witnessEvery, witnessMax: *witnessMax, witnessN: map[string]int{}, seed: *seed}
	for _, kv := range strings.Split(*known, ",") {
		if i := strings.Index(kv, "="); i > 0 {
			knownModes[kv[:i]] = kv[i+1:]
		}
	}
	for _, p := range spkgs {
		if p != nil && strings.HasPrefix(p.Pkg.Path(), "github.com/initia-labs/OPinit") {
			p.Build()
		}
	}
	loadS := time.Since(t0).Seconds()

	re := regexp.MustCompile(*harnessRe)
	var harnesses []*ssa.Function
	for _, p := range spkgs {
		if p == nil || !strings.HasPrefix(p.Pkg.Path(), "github.com/initia-labs/OPinit") {
			continue
		}
		var names []string
		for name := range p.Members {
			names = append(names, name)
		}
		sort.Strings(names)
		for _, name := range names {
			if fn, ok := p.Members[name].(*ssa.Function); ok && strings.HasPrefix(name, "Harness_") && re.MatchString(name) {
				harnesses = append(harnesses, fn)
			}
		}
	}
	if len(harnesses) == 0 {
		fmt.Fprintln(os.Stderr, "no harness matched")
		os.Exit(2)
	}
	if *onePath != "" {
		var pre []int
		for _, s := range strings.Split(*onePath, ",") {
			if s == "" || s == "-" {
				continue
			}
			var n int
			fmt.Sscan(s, &n)
			pre = append(pre, n)
		}
		w.trace = true
		sol, _ := NewSolver(*solver, *timeout)
		if *smtlog != "" {
			f, _ := os.Create(*smtlog)
			sol.log = f
		}
		r := w.runPath(sol, harnesses[0], pre)
		b, _ := json.MarshalIndent(map[string]any{"status": r.Status, "why": r.Why, "decisions": r.Decisions, "asserts": r.Asserts, "reached": r.Reached, "alts": r.NewAlts, "recovered": r.Recovered, "trace": r.Trace}, "", " ")
		fmt.Println(string(b))
		return
	}
	var reports []*HarnessReport
	for _, h := range harnesses {
		rep := w.explore(h, *workers, *maxPaths)
		reports = append(reports, rep)
		fmt.Fprintf(os.Stderr, "%s: paths=%d statuses=%v asserts=%v forks=%d solver_q=%v wall=%.1fs\n", h.Name(), rep.Paths, rep.Statuses, rep.Asserts, rep.Forks, rep.Solver["queries"], rep.WallS)
		for _, u := range rep.Unsupported {
			fmt.Fprintf(os.Stderr, "   UNSUPPORTED: %s\n", firstLines(u, 12))
		}
		for _, u := range rep.Unwinds {
			fmt.Fprintf(os.Stderr, "   BOUND-EXCEEDED: %s\n", u)
		}
		for _, v := range rep.Violations {
			fmt.Fprintf(os.Stderr, "   VIOLATED: %s at %s path=%v\n", v.Label, v.Pos, v.Path)
		}
	}
	final := map[string]any{"load_s": loadS, "total_s": time.Since(t0).Seconds(), "harnesses": reports, "tier": *tier, "solver": *solver}
	b, _ := json.MarshalIndent(final, "", " ")
	if *out != "" {
		os.WriteFile(*out, b, 0o644)
	} else {
		fmt.Println(string(b))
	}
}

func firstLines(s string, n int) string {
	ls := strings.Split(s, "\n")
	if len(ls) > n {
		ls = ls[:n]
	}
	return strings.Join(ls, "\n      ")
}
