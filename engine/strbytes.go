package main

import (
	"fmt"
	"math/big"
	"strings"
)

type bigInt = big.Int

// ---------- strings (uninterpreted sort Str + a few UFs) ----------

func strEq(a, b *Term) *Term {
	if a.IsStrLit() && b.IsStrLit() {
		return BoolT(a.Str == b.Str)
	}
	return Eq(a, b)
}

func strCat(a, b *Term) *Term {
	if a.IsStrLit() && a.Str == "" {
		return b
	}
	if b.IsStrLit() && b.Str == "" {
		return a
	}
	if a.IsStrLit() && b.IsStrLit() {
		return StrLit(a.Str + b.Str)
	}
	// right-nested normal form
	if a.Op == "str.cat" {
		return strCat(a.Args[0], strCat(a.Args[1], b))
	}
	if a.IsStrLit() && b.Op == "str.cat" && b.Args[0].IsStrLit() {
		return strCat(StrLit(a.Str+b.Args[0].Str), b.Args[1])
	}
	return App("str.cat", StrSort, a, b)
}

// strLen: Go len(s). Concrete for literals, Int-sorted UF otherwise.
func strLen(a *Term) *Term {
	if a.IsStrLit() {
		return BVU(uint64(len(a.Str)), 64)
	}
	return App("str.len", IntSort, a)
}

func strU64(v *Term) *Term {
	if v.IsConst() {
		return StrLit(v.N.String())
	}
	return App("str.u64", StrSort, v)
}

func strInt(v *Term) *Term {
	if v.IsConst() {
		return StrLit(v.N.String())
	}
	return App("str.int", StrSort, v)
}

func strHex(b *Term) *Term { return App("str.hex", StrSort, b) }

// ---------- opaque byte strings (sort Bytes) ----------

var bEmpty = App("b.empty", BytesSort)

func bytesOfBV(bv *Term) *Term {
	return App(fmt.Sprintf("b.of%d", bv.S.W/8), BytesSort, bv)
}

func bytesOfStrTerm(s *Term) *Term {
	if s.IsStrLit() {
		if s.Str == "" {
			return bEmpty
		}
		return bytesOfBV(BVConst(new(big.Int).SetBytes([]byte(s.Str)), 8*len(s.Str)))
	}
	if s.Op == "str.ofb" {
		return s.Args[0]
	}
	return App("b.ofstr", BytesSort, s)
}

func bytesCat(a, b *Term) *Term {
	if a.Op == "b.empty" {
		return b
	}
	if b.Op == "b.empty" {
		return a
	}
	if isBOf(a) && isBOf(b) {
		return bytesOfBV(Concat(a.Args[0], b.Args[0]))
	}
	if a.Op == "b.cat" {
		return bytesCat(a.Args[0], bytesCat(a.Args[1], b))
	}
	if isBOf(a) && b.Op == "b.cat" && isBOf(b.Args[0]) {
		return bytesCat(bytesOfBV(Concat(a.Args[0], b.Args[0].Args[0])), b.Args[1])
	}
	return App("b.cat", BytesSort, a, b)
}

func isBOf(t *Term) bool {
	return len(t.Op) > 4 && t.Op[:4] == "b.of" && t.Op != "b.ofstr"
}

func bytesLen(b *Term) *Term {
	if b.Op == "b.empty" {
		return BVU(0, 64)
	}
	if isBOf(b) {
		return BVU(uint64(b.Args[0].S.W/8), 64)
	}
	return App("b.len", IntSort, b)
}

// bytesTerm: any byte slice as a Bytes term
func (e *Exec) bytesTerm(s *SliceV) *Term {
	if s.Op != nil {
		return s.Op
	}
	if s.Nil || s.Len == 0 {
		return bEmpty
	}
	if arr, ok := s.A.V.(*ArrayV); ok && arr.Chunk != nil && arr.Chunk.N.IsConst() {
		// a slice ending exactly where the (truncated) copied bytes end
		if bt := e.chunkBytes(arr, s.Off, IntI(int64(s.Off+s.Len))); bt != nil {
			return bt
		}
	}
	return bytesOfBV(concatBytes(e.sliceElems(s)))
}

// fixed-length view of a byte slice as one bit-vector (nil if opaque)
func (e *Exec) bytesBV(s *SliceV) *Term {
	if s.Op != nil || s.Nil || s.Len == 0 {
		return nil
	}
	return concatBytes(e.sliceElems(s))
}

func (e *Exec) bytesOfString(s *Term) Value {
	if s.IsStrLit() {
		arr := &ArrayV{E: make([]Value, len(s.Str))}
		for i := 0; i < len(s.Str); i++ {
			arr.E[i] = BVU(uint64(s.Str[i]), 8)
		}
		if len(s.Str) == 0 {
			return &SliceV{A: e.newObj(arr, "str2b"), Len: 0, Cap: 0}
		}
		return &SliceV{A: e.newObj(arr, "str2b"), Len: len(s.Str), Cap: len(s.Str)}
	}
	return &SliceV{Op: bytesOfStrTerm(s)}
}

func (e *Exec) stringOfBytes(s *SliceV) Value {
	if s.Op != nil {
		if s.Op.Op == "b.ofstr" {
			return s.Op.Args[0]
		}
		return App("str.ofb", StrSort, s.Op)
	}
	elems := e.sliceElems(s)
	bs := make([]byte, len(elems))
	for i, v := range elems {
		t := v.(*Term)
		if !t.IsConst() {
			return App("str.ofb", StrSort, e.bytesTerm(s))
		}
		bs[i] = byte(t.N.Uint64())
	}
	return StrLit(string(bs))
}

// byte slice value from a BV term of width 8n (fresh backing array)
func (e *Exec) sliceOfBV(bv *Term, name string) *SliceV {
	n := bv.S.W / 8
	arr := &ArrayV{E: make([]Value, n)}
	for i := 0; i < n; i++ {
		hi := bv.S.W - 1 - 8*i
		arr.E[i] = Extract(bv, hi, hi-7)
	}
	return &SliceV{A: e.newObj(arr, name), Len: n, Cap: n}
}

func arrayOfBV(bv *Term) *ArrayV {
	n := bv.S.W / 8
	arr := &ArrayV{E: make([]Value, n)}
	for i := 0; i < n; i++ {
		hi := bv.S.W - 1 - 8*i
		arr.E[i] = Extract(bv, hi, hi-7)
	}
	return arr
}

func init() {
	ge0 := func(t *Term) []*Term { return []*Term{IGe(t, IntI(0))} }
	instanceAxioms["str.len"] = func(t *Term) []*Term {
		return []*Term{IGe(t, IntI(0)), Eq(Eq(t, IntI(0)), Eq(t.Args[0], StrLit("")))}
	}
	instanceAxioms["b.len"] = func(t *Term) []*Term {
		a := t.Args[0]
		out := ge0(t)
		out = append(out, Eq(Eq(t, IntI(0)), Eq(a, bEmpty)))
		switch {
		case a.Op == "b.cat":
			out = append(out, Eq(t, IAdd(lenInt(a.Args[0]), lenInt(a.Args[1]))))
		case a.Op == "b.ofstr":
			out = append(out, Eq(t, App("str.len", IntSort, a.Args[0])))
		}
		return out
	}
	instanceAxioms["b.ofstr"] = func(t *Term) []*Term {
		if t.Args[0].Op == "str.ofb" {
			return nil
		}
		return []*Term{Eq(App("str.ofb", StrSort, t), t.Args[0])}
	}
	instanceAxioms["str.ofb"] = func(t *Term) []*Term {
		if t.Args[0].Op == "b.ofstr" {
			return nil
		}
		return []*Term{Eq(App("b.ofstr", BytesSort, t), t.Args[0])}
	}
	// bytes.Compare / key ordering: injective order embedding
	instanceAxioms["b.ord"] = func(t *Term) []*Term { return nil }
	// strings.ToLower as an uninterpreted function: idempotent (via hasupper), length preserving on the modelled (ASCII) strings,
	// the identity on strings without an upper-case letter
	instanceAxioms["str.lower"] = func(t *Term) []*Term {
		s := t.Args[0]
		return []*Term{
			Eq(strLen(t), strLen(s)),
			Not(App("str.hasupper", BoolSort, t)),
			Implies(Not(App("str.hasupper", BoolSort, s)), strEq(t, s)),
			Implies(App("str.hasupper", BoolSort, s), Not(strEq(t, s))),
		}
	}
	// strings.TrimSpace as an uninterpreted function: never longer than its argument, idempotent, empty for the
	// empty string; a non-empty string may well trim to the empty one (all white space)
	instanceAxioms["str.trim"] = func(t *Term) []*Term {
		s := t.Args[0]
		return []*Term{
			ILe(strLen(t), strLen(s)),
			Implies(strEq(s, StrLit("")), strEq(t, StrLit(""))),
			Implies(Eq(strLen(t), strLen(s)), strEq(t, s)),
		}
	}
	instanceAxioms["str.u64"] = func(t *Term) []*Term {
		// decimal rendering is injective
		return []*Term{Eq(App("str.u64inv", t.Args[0].S, t), t.Args[0])}
	}
	instanceAxioms["str.int"] = func(t *Term) []*Term {
		return []*Term{Eq(App("str.intinv", IntSort, t), t.Args[0])}
	}
	instanceAxioms["str.hex"] = func(t *Term) []*Term {
		return []*Term{Eq(App("str.hexinv", BytesSort, t), t.Args[0])}
	}
}

func lenInt(b *Term) *Term {
	l := bytesLen(b)
	if l.S.K == SBV {
		return IntConst(l.N)
	}
	return l
}

func axiomsFor(u *Term) []*Term {
	if axiomsForHook != nil {
		if r := axiomsForHook(u); r != nil {
			return r
		}
	}
	if f, ok := instanceAxioms[u.Op]; ok {
		return f(u)
	}
	if strings.HasPrefix(u.Op, "bvlt") && len(u.Args) == 2 {
		a, b := u.Args[0], u.Args[1]
		rev := App(u.Op, BoolSort, b, a)
		// trichotomy: exactly one of a<b, b<a, a=b
		return []*Term{Eq(u, And(Not(rev), Not(Eq(a, b))))}
	}
	if isBOf(u) {
		n := u.Args[0].S.W / 8
		return []*Term{
			Eq(App(fmt.Sprintf("b.un%d", n), BV(8*n), u), u.Args[0]),
			Eq(App("b.len", IntSort, u), IntI(int64(n))),
		}
	}
	return nil
}
