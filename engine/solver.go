package main

import (
	"bufio"
	"fmt"
	"io"
	"os"
	"os/exec"
	"sort"
	"strings"
	"time"
)

// Solver: one persistent SMT process (z3 -in by default). Declarations are emitted lazily, at base level,
// before the push that needs them. Any "(error" line makes the query inconclusive (result "error").

type Solver struct {
	kind          string // z3 | z3-new | cvc5
	cmd           *exec.Cmd
	in            io.WriteCloser
	out           *bufio.Reader
	declared      map[string]bool // symbols / funs / sorts / literals / instance-axiom keys
	seenTerm      map[*Term]bool
	nlits         int
	timeout       int // ms per query
	Queries       int
	Sat           int
	Unsat         int
	Unknown       int
	Errors        int
	Seconds       float64
	log           io.Writer
	pending       []string // axioms to assert at base level
	lastQuery     string
	keepHist      bool
	hist          []string
	slowN         int
	base          []string
	branchTimeout int
	depth         int
	replaying     bool
	Retries       int
	RetryWins     int
}

var builtinOps = map[string]bool{
	"and": true, "or": true, "not": true, "ite": true, "=": true, "distinct": true, "=>": true,
	"bvadd": true, "bvsub": true, "bvmul": true, "bvudiv": true, "bvurem": true, "bvsdiv": true, "bvsrem": true,
	"bvand": true, "bvor": true, "bvxor": true, "bvshl": true, "bvlshr": true, "bvashr": true, "bvnot": true, "bvneg": true,
	"bvult": true, "bvule": true, "bvugt": true, "bvuge": true, "bvslt": true, "bvsle": true, "bvsgt": true, "bvsge": true,
	"concat": true, "extract": true, "zero_extend": true, "sign_extend": true,
	"+": true, "-": true, "*": true, "div": true, "mod": true, "<": true, "<=": true, ">": true, ">=": true, "bv2nat": true,
	"select": true, "store": true, "const": true, "sym": true, "strlit": true,
}

func NewSolver(kind string, timeoutMs int) (*Solver, error) {
	s := &Solver{kind: kind, timeout: timeoutMs, keepHist: os.Getenv("VERIF_SLOWLOG") != ""}
	if err := s.start(); err != nil {
		return nil, err
	}
	return s, nil
}

func (s *Solver) start() error {
	var cmd *exec.Cmd
	switch s.kind {
	case "cvc5":
		cmd = exec.Command("cvc5", "--incremental", "--lang=smt2", fmt.Sprintf("--tlimit-per=%d", s.timeout), "--produce-models")
	case "z3-new":
		cmd = exec.Command("z3-new", "-in")
	default:
		cmd = exec.Command("z3", "-in")
	}
	in, err := cmd.StdinPipe()
	if err != nil {
		return err
	}
	out, err := cmd.StdoutPipe()
	if err != nil {
		return err
	}
	cmd.Stderr = cmd.Stdout
	if err := cmd.Start(); err != nil {
		return err
	}
	s.cmd, s.in, s.out = cmd, in, bufio.NewReaderSize(out, 1<<20)
	s.resetState()
	return nil
}

func (s *Solver) resetState() {
	s.declared = map[string]bool{}
	s.seenTerm = map[*Term]bool{}
	s.nlits = 0
	s.pending = nil
	if s.kind == "cvc5" {
		s.send("(set-logic ALL)")
	} else {
		s.send(fmt.Sprintf("(set-option :timeout %d)", s.timeout))
		s.send("(set-option :model.completion true)")
	}
}

func (s *Solver) Reset() {
	if s.kind == "cvc5" {
		// cvc5 cannot change logic after reset-assertions cleanly; restart the process
		s.Close()
		if err := s.start(); err != nil {
			panic(err)
		}
		return
	}
	s.send("(reset)")
	s.resetState()
}

func (s *Solver) Close() {
	if s.cmd != nil {
		s.in.Close()
		s.cmd.Process.Kill()
		s.cmd.Wait()
		s.cmd = nil
	}
}

func (s *Solver) send(line string) {
	switch {
	case line == "(reset)":
		s.base = s.base[:0]
		s.depth = 0
	case strings.HasPrefix(line, "(push"):
		s.depth++
	case strings.HasPrefix(line, "(pop"):
		s.depth--
	case s.depth == 0 && !s.replaying && !strings.HasPrefix(line, "(echo") && !strings.HasPrefix(line, "(check-sat") && !strings.HasPrefix(line, "(get-value") && !strings.HasPrefix(line, "(set-option :timeout"):
		s.base = append(s.base, line)
	}
	if s.keepHist {
		if line == "(reset)" {
			s.hist = s.hist[:0]
		} else if !strings.HasPrefix(line, "(echo") {
			s.hist = append(s.hist, line)
		}
	}
	if s.log != nil {
		fmt.Fprintln(s.log, line)
	}
	io.WriteString(s.in, line)
	io.WriteString(s.in, "\n")
}

// sync reads until the marker, returning the lines in between.
func (s *Solver) sync() []string {
	s.send(`(echo "<<done>>")`)
	var lines []string
	for {
		l, err := s.out.ReadString('\n')
		if err != nil {
			lines = append(lines, "(error \"solver died: "+err.Error()+"\")")
			// restart for subsequent queries
			s.Close()
			if e := s.start(); e != nil {
				panic(e)
			}
			return lines
		}
		l = strings.TrimRight(l, "\r\n")
		if l == "<<done>>" || l == `"<<done>>"` {
			return lines
		}
		if l != "" {
			lines = append(lines, l)
		}
	}
}

func (s *Solver) declSort(so Sort) {
	if so.K == SUn && strings.HasPrefix(so.Name, "(") {
		s.declSort(StrSort)
		s.declSort(BytesSort)
		return
	}
	if so.K == SUn && !s.declared["sort:"+so.Name] {
		s.declared["sort:"+so.Name] = true
		s.send(fmt.Sprintf("(declare-sort %s 0)", so.Name))
	}
}

// prepare emits every declaration the term needs, then the instance axioms its subterms trigger.
func (s *Solver) prepare(t *Term) {
	s.declWalk(t)
	for len(s.pending) > 0 {
		p := s.pending
		s.pending = nil
		for _, a := range p {
			s.send(a)
		}
	}
}

func (s *Solver) declWalk(t *Term) {
	t.walk(s.seenTerm, func(u *Term) {
		switch u.Op {
		case "const":
			return
		case "sym":
			k := "c:" + u.Str
			if !s.declared[k] {
				s.declared[k] = true
				s.declSort(u.S)
				s.send(fmt.Sprintf("(declare-const %s %s)", smtSymbol(u.Str), u.S.SMT()))
			}
		case "strlit":
			k := "l:" + u.Str
			if !s.declared[k] {
				s.declared[k] = true
				s.declSort(StrSort)
				sym := strLitSymbol(u.Str)
				s.send(fmt.Sprintf("(declare-const %s Str)", sym))
				s.ensureFun("str.id", []Sort{StrSort}, IntSort)
				s.ensureFun("str.len", []Sort{StrSort}, IntSort)
				s.nlits++
				s.send(fmt.Sprintf("(assert (= (str.id %s) %d))", sym, s.nlits))
				s.send(fmt.Sprintf("(assert (= (str.len %s) %d))", sym, len(u.Str)))
			}
		default:
			if !builtinOps[u.Op] {
				var as []Sort
				for _, a := range u.Args {
					as = append(as, a.S)
				}
				s.ensureFun(u.Op, as, u.S)
			}
		}
		if u.Op != "const" && u.Op != "sym" && u.Op != "strlit" && !builtinOps[u.Op] {
			k := "ax:" + u.Key()
			if !s.declared[k] {
				s.declared[k] = true
				for _, a := range axiomsFor(u) {
					s.declWalk(a)
					s.pending = append(s.pending, "(assert "+a.SMT()+")")
				}
			}
		}
	})
}

func (s *Solver) ensureFun(name string, args []Sort, res Sort) {
	k := "f:" + name
	if s.declared[k] {
		return
	}
	s.declared[k] = true
	var as []string
	for _, a := range args {
		s.declSort(a)
		as = append(as, a.SMT())
	}
	s.declSort(res)
	s.send(fmt.Sprintf("(declare-fun %s (%s) %s)", smtSymbol(name), strings.Join(as, " "), res.SMT()))
}

func (s *Solver) Assert(t *Term) {
	if t.IsTrue() {
		return
	}
	s.prepare(t)
	s.send("(assert " + t.SMT() + ")")
}

func (s *Solver) classify(lines []string) string {
	res := ""
	for _, l := range lines {
		if strings.Contains(l, "(error") {
			s.Errors++
			return "error: " + l
		}
		switch l {
		case "sat", "unsat", "unknown":
			if res == "" {
				res = l
			}
		}
	}
	if res == "" {
		return "error: no answer: " + strings.Join(lines, " | ")
	}
	return res
}

// Check asks whether the current assertions plus extra are satisfiable. The incremental core of z3 is
// tried first under a short timeout; if it gives up, the same problem is re-asked from scratch (reset +
// replay of the base assertions), where z3's full preprocessing pipeline applies.
// CheckBranch: feasibility of a branch. "unknown" keeps the branch (sound), so a short budget is enough.
func (s *Solver) CheckBranch(extra *Term) string {
	full := s.timeout
	if s.branchTimeout > 0 && s.branchTimeout < full {
		s.timeout = s.branchTimeout
	}
	r := s.Check(extra)
	s.timeout = full
	return r
}

func (s *Solver) Check(extra *Term) string {
	t0 := time.Now()
	if extra != nil {
		s.prepare(extra)
		s.lastQuery = extra.SMT()
	}
	quick := s.timeout
	if s.kind != "cvc5" {
		if quick > 1500 {
			quick = 1500
		}
		s.send(fmt.Sprintf("(set-option :timeout %d)", quick))
	}
	if extra != nil {
		s.send("(push 1)")
		s.send("(assert " + extra.SMT() + ")")
	}
	s.send("(check-sat)")
	if extra != nil {
		s.send("(pop 1)")
	}
	r := s.classify(s.sync())
	if r != "sat" && r != "unsat" && s.kind != "cvc5" {
		r = s.freshCheck(extra)
	}
	s.account(r, t0)
	return r
}

// freshCheck: reset, replay the base-level script, ask once with the full timeout and WITHOUT push/pop, then
// rebuild the base level. z3 answers a scoped query with its incremental core, which is much weaker on wide
// bit-vectors under uninterpreted functions (measured: unknown at 5 s scoped, unsat in 20 ms unscoped).
func (s *Solver) freshCheck(extra *Term) string {
	s.Retries++
	base := append([]string{}, s.base...)
	replay := func() {
		s.replaying = true
		s.send("(reset)")
		s.send(fmt.Sprintf("(set-option :timeout %d)", s.timeout))
		for _, l := range base {
			s.send(l)
		}
		s.replaying = false
		s.base = base
	}
	replay()
	if extra != nil {
		s.replaying = true
		s.send("(assert " + extra.SMT() + ")")
		s.replaying = false
	}
	s.send("(check-sat)")
	r := s.classify(s.sync())
	if extra != nil {
		replay()
	}
	if r == "sat" || r == "unsat" {
		s.RetryWins++
	}
	return r
}

func (s *Solver) account(r string, t0 time.Time) {
	s.Queries++
	s.Seconds += time.Since(t0).Seconds()
	if p := os.Getenv("VERIF_SLOWLOG"); p != "" && time.Since(t0).Seconds() > 2 {
		if f, err := os.OpenFile(p, os.O_APPEND|os.O_CREATE|os.O_WRONLY, 0o644); err == nil {
			fmt.Fprintf(f, "%.1fs %s\n%s\n\n", time.Since(t0).Seconds(), r, s.lastQuery)
			f.Close()
		}
		s.slowN++
		if s.slowN <= 2 && len(s.hist) > 0 {
			os.WriteFile(fmt.Sprintf("%s.%d.%d.smt2", p, os.Getpid(), time.Now().UnixNano()%100000), []byte(strings.Join(s.hist, "\n")+"\n"), 0o644)
		}
	}
	switch r {
	case "sat":
		s.Sat++
	case "unsat":
		s.Unsat++
	default:
		s.Unknown++
	}
}

// CheckModel is Check plus the values of the given terms when sat.
func (s *Solver) CheckModel(extra *Term, want []*Term) (string, map[string]string) {
	t0 := time.Now()
	if extra != nil {
		s.prepare(extra)
	}
	for _, w := range want {
		s.prepare(w)
	}
	attempt := func() string {
		s.send("(push 1)")
		if extra != nil {
			s.send("(assert " + extra.SMT() + ")")
		}
		s.send("(check-sat)")
		return s.classify(s.sync())
	}
	if s.kind != "cvc5" {
		s.send(fmt.Sprintf("(set-option :timeout %d)", s.timeout))
	}
	r := attempt()
	if r != "sat" && r != "unsat" && s.kind != "cvc5" {
		s.send("(pop 1)")
		s.Retries++
		base := append([]string{}, s.base...)
		s.replaying = true
		s.send("(reset)")
		s.send(fmt.Sprintf("(set-option :timeout %d)", s.timeout))
		for _, l := range base {
			s.send(l)
		}
		s.replaying = false
		s.base = base
		r = attempt()
		if r == "sat" || r == "unsat" {
			s.RetryWins++
		}
	}
	s.account(r, t0)
	var vals map[string]string
	if r == "sat" && len(want) > 0 {
		vals = map[string]string{}
		// ask in chunks to keep output parseable
		for i := 0; i < len(want); i += 40 {
			j := min(i+40, len(want))
			var sb strings.Builder
			sb.WriteString("(get-value (")
			for _, w := range want[i:j] {
				sb.WriteString(w.SMT())
				sb.WriteString(" ")
			}
			sb.WriteString("))")
			s.send(sb.String())
			lines := s.sync()
			txt := strings.Join(lines, " ")
			pairs := parseGetValue(txt)
			for k, w := range want[i:j] {
				if k < len(pairs) {
					vals[w.SMT()] = pairs[k]
				}
			}
		}
	}
	s.send("(pop 1)")
	return r, vals
}

// parseGetValue splits "((t1 v1) (t2 v2) ...)" into the value strings, in order.
func parseGetValue(txt string) []string {
	sx := parseSexp(txt)
	var out []string
	if sx == nil {
		return out
	}
	for _, p := range sx.list {
		if len(p.list) == 2 {
			out = append(out, p.list[1].String())
		}
	}
	return out
}

type sexp struct {
	atom string
	list []*sexp
	isL  bool
}

func (s *sexp) String() string {
	if !s.isL {
		return s.atom
	}
	var parts []string
	for _, c := range s.list {
		parts = append(parts, c.String())
	}
	return "(" + strings.Join(parts, " ") + ")"
}

func parseSexp(txt string) *sexp {
	pos := 0
	var parse func() *sexp
	skip := func() {
		for pos < len(txt) && (txt[pos] == ' ' || txt[pos] == '\n' || txt[pos] == '\t') {
			pos++
		}
	}
	parse = func() *sexp {
		skip()
		if pos >= len(txt) {
			return nil
		}
		if txt[pos] == '(' {
			pos++
			n := &sexp{isL: true}
			for {
				skip()
				if pos >= len(txt) {
					return n
				}
				if txt[pos] == ')' {
					pos++
					return n
				}
				c := parse()
				if c == nil {
					return n
				}
				n.list = append(n.list, c)
			}
		}
		st := pos
		if txt[pos] == '|' {
			pos++
			for pos < len(txt) && txt[pos] != '|' {
				pos++
			}
			pos++
			return &sexp{atom: txt[st:pos]}
		}
		if txt[pos] == '"' {
			pos++
			for pos < len(txt) && txt[pos] != '"' {
				pos++
			}
			pos++
			return &sexp{atom: txt[st:pos]}
		}
		for pos < len(txt) && !strings.ContainsRune(" \n\t()", rune(txt[pos])) {
			pos++
		}
		return &sexp{atom: txt[st:pos]}
	}
	return parse()
}

func (s *Solver) Stats() map[string]any {
	return map[string]any{"queries": s.Queries, "sat": s.Sat, "unsat": s.Unsat, "unknown": s.Unknown, "errors": s.Errors, "solver_s": s.Seconds, "retries": s.Retries, "retry_wins": s.RetryWins}
}

// instance axioms: added once per application term of the given UF
var instanceAxioms = map[string]func(*Term) []*Term{}

func sortedKeys[V any](m map[string]V) []string {
	var ks []string
	for k := range m {
		ks = append(ks, k)
	}
	sort.Strings(ks)
	return ks
}
