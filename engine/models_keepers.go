package main

import (
	"fmt"
	"go/types"
	"strings"
)

// ---------- bank / account keepers, community pool, bridge hook ----------

func (e *Exec) bankInit(st *State) {
	if st.Bal == nil {
		if st.Init != nil && st.Init.bank != nil {
			// another fork of this chain state already named the initial ledgers
			b := st.Init.bank
			st.Bal, st.Sup, st.Acc, st.Meta, st.MetaB, st.MetaD = b[0], b[1], b[2], b[3], b[4], b[5]
			return
		}
		st.Bal = e.fresh(st.Prefix+"bank.balances0", balSort)
		st.Sup = e.fresh(st.Prefix+"bank.supply0", supSort)
		st.Acc = e.fresh(st.Prefix+"auth.accounts0", accSort)
		st.Meta = e.fresh(st.Prefix+"bank.denomMeta0", metaSort)
		st.MetaB = e.fresh(st.Prefix+"bank.denomMetaBase0", strMapSort)
		st.MetaD = e.fresh(st.Prefix+"bank.denomMetaDisplay0", strMapSort)
		if st.Init != nil {
			st.Init.bank = []*Term{st.Bal, st.Sup, st.Acc, st.Meta, st.MetaB, st.MetaD}
		}
	}
}

func sel(arr *Term, idx *Term, res Sort) *Term { return App("select", res, arr, idx) }
func sto(arr *Term, idx, v *Term) *Term        { return App("store", arr.S, arr, idx, v) }

func (e *Exec) balance(st *State, addr, denom *Term) *Term {
	e.bankInit(st)
	b := sel(sel(st.Bal, addr, rowSort), denom, IntSort)
	// the bank's own invariant on the pre-state (supply = sum of non-negative balances), for the cell read:
	// no account held more than the total supply
	if st.Init != nil && st.Init.bank != nil {
		b0 := sel(sel(st.Init.bank[0], addr, rowSort), denom, IntSort)
		e.assertPC(And(IGe(b0, IntI(0)), ILe(b0, sel(st.Init.bank[1], denom, IntSort))))
	}
	return b
}

func (e *Exec) setBalance(st *State, addr, denom, v *Term) {
	row := sel(st.Bal, addr, rowSort)
	st.Bal = sto(st.Bal, addr, sto(row, denom, v))
}

func (e *Exec) supply(st *State, denom *Term) *Term {
	e.bankInit(st)
	return sel(st.Sup, denom, IntSort)
}

type coinT struct {
	Denom *Term
	Amt   *Term
}

func (e *Exec) coinsOf(v Value) []coinT {
	s := asSlice(e, v)
	var out []coinT
	for _, el := range e.sliceElems(s) {
		out = append(out, e.coinOf(el))
	}
	return out
}

func (e *Exec) coinOf(v Value) coinT {
	sv, ok := v.(*StructV)
	if !ok || len(sv.F) != 2 {
		e.unsupported(fmt.Sprintf("expected sdk.Coin, got %T", v))
	}
	return coinT{Denom: sv.F[0].(*Term), Amt: e.intNN(sv.F[1])}
}

func moduleAddr(name *Term) *Term { return App("modaddr0", BytesSort, name) }

func init() {
	instanceAxioms["modaddr0"] = func(t *Term) []*Term {
		return []*Term{Eq(App("modaddr0.name", StrSort, t), t.Args[0]), Not(App("addr.isModuleDerived", BoolSort, t))}
	}
}

// fault injection point: returns 0 ok, 1 error, 2 panic
func (e *Exec) fault(site string) int {
	if e.cfg.Opts["fault:"+site] == 0 && e.cfg.Opts["fault:*"] == 0 {
		return 0
	}
	tag := e.fresh("fault."+site, IntSort)
	k := e.decide([]*Term{Eq(tag, IntI(0)), Eq(tag, IntI(1)), Not(Or(Eq(tag, IntI(0)), Eq(tag, IntI(1))))})
	e.assertPC(Eq(tag, IntI(int64(k))))
	return k
}

// transfer implements bank.SendCoins on the modelled ledger
func (e *Exec) transfer(c *CtxV, from, to *Term, coins []coinT) Value {
	st := c.St
	e.bankInit(st)
	for _, cn := range coins {
		if !e.decideBool(IGt(cn.Amt, IntI(0))) {
			return errIface("github.com/cosmos/cosmos-sdk/types/errors.ErrInvalidCoins", StrLit("invalid coins"))
		}
	}
	for _, cn := range coins {
		b := e.balance(st, from, cn.Denom)
		e.assertPC(IGe(b, IntI(0)))
		if !e.decideBool(IGe(b, cn.Amt)) {
			return errIface("github.com/cosmos/cosmos-sdk/types/errors.ErrInsufficientFunds", StrLit("insufficient funds"))
		}
		e.setBalance(st, from, cn.Denom, ISub(b, cn.Amt))
	}
	// send restriction (after the debit, as in the SDK): may veto
	if e.cfg.Opts["sendrestriction"] != 0 {
		if e.decideBool(e.fresh("bank.sendRestrictionFails", BoolSort)) {
			return errIface("", StrLit("send restriction"))
		}
	}
	for _, cn := range coins {
		b := e.balance(st, to, cn.Denom)
		e.assertPC(IGe(b, IntI(0)))
		e.setBalance(st, to, cn.Denom, IAdd(b, cn.Amt))
	}
	// recipient account is created if missing
	st.Acc = sto(st.Acc, to, True)
	return nilErr()
}

func newCoin(denom *Term, amt *Term, coinType types.Type) Value {
	return &StructV{T: coinType, F: []Value{denom, IntV{T: amt}}}
}

func init() {
	bk := "bankkeeper."
	models[bk+"SendCoins"] = func(e *Exec, a []Value) []Value {
		c := ctxOf(e, a[1])
		switch e.fault("SendCoins") {
		case 1:
			return []Value{errIface("", StrLit("injected bank failure"))}
		case 2:
			e.goPanicStr("injected bank panic")
		}
		return []Value{e.transfer(c, e.bytesTerm(asSlice(e, a[2])), e.bytesTerm(asSlice(e, a[3])), e.coinsOf(a[4]))}
	}
	models[bk+"SendCoinsFromModuleToAccount"] = func(e *Exec, a []Value) []Value {
		c := ctxOf(e, a[1])
		switch e.fault("SendCoinsFromModuleToAccount") {
		case 1:
			return []Value{errIface("", StrLit("injected bank failure"))}
		case 2:
			e.goPanicStr("injected bank panic")
		}
		to := e.bytesTerm(asSlice(e, a[3]))
		if e.decideBool(App("bank.blocked", BoolSort, to)) {
			return []Value{errIface("github.com/cosmos/cosmos-sdk/types/errors.ErrUnauthorized", StrLit("blocked address"))}
		}
		return []Value{e.transfer(c, moduleAddr(asTerm(e, a[2])), to, e.coinsOf(a[4]))}
	}
	models[bk+"SendCoinsFromAccountToModule"] = func(e *Exec, a []Value) []Value {
		c := ctxOf(e, a[1])
		switch e.fault("SendCoinsFromAccountToModule") {
		case 1:
			return []Value{errIface("", StrLit("injected bank failure"))}
		case 2:
			e.goPanicStr("injected bank panic")
		}
		return []Value{e.transfer(c, e.bytesTerm(asSlice(e, a[2])), moduleAddr(asTerm(e, a[3])), e.coinsOf(a[4]))}
	}
	models[bk+"MintCoins"] = func(e *Exec, a []Value) []Value {
		c := ctxOf(e, a[1])
		switch e.fault("MintCoins") {
		case 1:
			return []Value{errIface("", StrLit("injected bank failure"))}
		case 2:
			e.goPanicStr("injected bank panic")
		}
		st := c.St
		e.bankInit(st)
		mod := moduleAddr(asTerm(e, a[2]))
		for _, cn := range e.coinsOf(a[3]) {
			if !e.decideBool(IGt(cn.Amt, IntI(0))) {
				return []Value{errIface("github.com/cosmos/cosmos-sdk/types/errors.ErrInvalidCoins", StrLit("invalid coins"))}
			}
			b := e.balance(st, mod, cn.Denom)
			e.assertPC(IGe(b, IntI(0)))
			e.setBalance(st, mod, cn.Denom, IAdd(b, cn.Amt))
			s := e.supply(st, cn.Denom)
			e.assertPC(IGe(s, IntI(0)))
			st.Sup = sto(st.Sup, cn.Denom, IAdd(s, cn.Amt))
		}
		return []Value{nilErr()}
	}
	models[bk+"BurnCoins"] = func(e *Exec, a []Value) []Value {
		c := ctxOf(e, a[1])
		switch e.fault("BurnCoins") {
		case 1:
			return []Value{errIface("", StrLit("injected bank failure"))}
		case 2:
			e.goPanicStr("injected bank panic")
		}
		st := c.St
		e.bankInit(st)
		mod := moduleAddr(asTerm(e, a[2]))
		for _, cn := range e.coinsOf(a[3]) {
			if !e.decideBool(IGt(cn.Amt, IntI(0))) {
				return []Value{errIface("github.com/cosmos/cosmos-sdk/types/errors.ErrInvalidCoins", StrLit("invalid coins"))}
			}
			b := e.balance(st, mod, cn.Denom)
			e.assertPC(IGe(b, IntI(0)))
			if !e.decideBool(IGe(b, cn.Amt)) {
				return []Value{errIface("github.com/cosmos/cosmos-sdk/types/errors.ErrInsufficientFunds", StrLit("insufficient funds"))}
			}
			e.setBalance(st, mod, cn.Denom, ISub(b, cn.Amt))
			s := e.supply(st, cn.Denom)
			// bank invariant: supply covers every balance
			e.assertPC(IGe(s, b))
			st.Sup = sto(st.Sup, cn.Denom, ISub(s, cn.Amt))
		}
		return []Value{nilErr()}
	}
	models[bk+"GetBalance"] = func(e *Exec, a []Value) []Value {
		c := ctxOf(e, a[1])
		d := asTerm(e, a[3])
		b := e.balance(c.St, e.bytesTerm(asSlice(e, a[2])), d)
		e.assertPC(IGe(b, IntI(0)))
		return []Value{newCoin(d, b, e.W.typeByName("github.com/cosmos/cosmos-sdk/types", "Coin"))}
	}
	models[bk+"GetSupply"] = func(e *Exec, a []Value) []Value {
		c := ctxOf(e, a[1])
		d := asTerm(e, a[2])
		s := e.supply(c.St, d)
		e.assertPC(IGe(s, IntI(0)))
		return []Value{newCoin(d, s, e.W.typeByName("github.com/cosmos/cosmos-sdk/types", "Coin"))}
	}
	models[bk+"HasDenomMetaData"] = func(e *Exec, a []Value) []Value {
		c := ctxOf(e, a[1])
		e.bankInit(c.St)
		return []Value{sel(c.St.Meta, asTerm(e, a[2]), BoolSort)}
	}
	models[bk+"SetDenomMetaData"] = func(e *Exec, a []Value) []Value {
		c := ctxOf(e, a[1])
		e.bankInit(c.St)
		md := a[2].(*StructV)
		// Metadata.Base is field index 2 (Description, DenomUnits, Base, ...)
		base := md.F[2].(*Term)
		c.St.Meta = sto(c.St.Meta, base, True)
		c.St.MetaB = sto(c.St.MetaB, base, base)
		if disp, ok := md.F[3].(*Term); ok { // Display
			c.St.MetaD = sto(c.St.MetaD, base, disp)
		}
		return nil
	}
	models[bk+"GetDenomMetaData"] = func(e *Exec, a []Value) []Value {
		c := ctxOf(e, a[1])
		e.bankInit(c.St)
		d := asTerm(e, a[2])
		mdT := e.W.typeByName("github.com/cosmos/cosmos-sdk/x/bank/types", "Metadata")
		md := e.zero(mdT).(*StructV)
		if !e.decideBool(sel(c.St.Meta, d, BoolSort)) {
			return []Value{md, False}
		}
		// stored under its base denom; the other string fields are whatever was stored (functions of the denom)
		st := mdT.Underlying().(*types.Struct)
		for i := 0; i < st.NumFields(); i++ {
			if !isString(st.Field(i).Type()) {
				continue
			}
			switch st.Field(i).Name() {
			case "Base":
				md.F[i] = d
			case "Display":
				md.F[i] = sel(c.St.MetaD, d, StrSort)
			default:
				md.F[i] = App("bank.meta."+st.Field(i).Name(), StrSort, d)
			}
		}
		return []Value{md, True}
	}

	ak := "authkeeper."
	models[ak+"AddressCodec"] = func(e *Exec, a []Value) []Value {
		return []Value{IfaceV{V: &ModelObj{Kind: "addrcodec", Name: "acc"}}}
	}
	models[ak+"GetModuleAddress"] = func(e *Exec, a []Value) []Value {
		return []Value{&SliceV{Op: moduleAddr(asTerm(e, a[1]))}}
	}
	models[ak+"HasAccount"] = func(e *Exec, a []Value) []Value {
		c := ctxOf(e, a[1])
		e.bankInit(c.St)
		return []Value{sel(c.St.Acc, e.bytesTerm(asSlice(e, a[2])), BoolSort)}
	}
	models[ak+"NewAccountWithAddress"] = func(e *Exec, a []Value) []Value {
		return []Value{IfaceV{V: &ModelObj{Kind: "account", F: map[string]Value{"addr": a[2]}}}}
	}
	models[ak+"NewAccount"] = func(e *Exec, a []Value) []Value {
		// sets the account number on the given account and returns it
		return []Value{a[2]}
	}
	models[ak+"SetAccount"] = func(e *Exec, a []Value) []Value {
		c := ctxOf(e, a[1])
		e.bankInit(c.St)
		addr := e.accountAddr(a[2])
		c.St.Acc = sto(c.St.Acc, addr, True)
		return nil
	}

	models["communitypool.FundCommunityPool"] = func(e *Exec, a []Value) []Value {
		c := ctxOf(e, a[1])
		return []Value{e.transfer(c, e.bytesTerm(asSlice(e, a[3])), moduleAddr(StrLit("distribution")), e.coinsOf(a[2]))}
	}

	// bridge hook: arbitrary deterministic outcome (ok or error) per call; C19 executes the real hook instead
	for _, m := range []string{"BridgeCreated", "BridgeChallengerUpdated", "BridgeProposerUpdated", "BridgeBatchInfoUpdated", "BridgeMetadataUpdated"} {
		m := m
		models["bridgehook."+m] = func(e *Exec, a []Value) []Value {
			// what the hook was told is part of the state of the context it ran on (C18 compares it)
			hst := ctxOf(e, a[1]).St
			hst.Ghost["hook:"+m] = a[3]
			hst.Ghost["hookid:"+m] = a[2]
			if e.decideBool(e.fresh("hook."+m+".fails", BoolSort)) {
				return []Value{errIface("", StrLit("bridge hook failed"))}
			}
			return []Value{nilErr()}
		}
	}
}

func init() {
	// hook.hasPermChannels decodes the metadata with encoding/json (reflection-based; not encodable). It is
	// stubbed as a deterministic function of the metadata bytes: whether the documented structure is present
	// and which (<= 2) channels it lists. Which byte strings encoding/json accepts is outside the claim.
	models["github.com/initia-labs/OPinit/x/ophost/types/hook.hasPermChannels"] = func(e *Exec, a []Value) []Value {
		meta := e.bytesTerm(asSlice(e, a[0]))
		pmT := e.W.typeByName("github.com/initia-labs/OPinit/x/ophost/types/hook", "PermsMetadata")
		pcT := e.W.typeByName("github.com/initia-labs/OPinit/x/ophost/types/hook", "PortChannelID")
		data := e.zero(pmT).(*StructV)
		// the decoded structure is a function of the bytes whether or not the strict decode accepts them:
		// encoding/json fills the struct and reports e.g. an unknown field only at the end, so a caller that
		// ignores the flag sees populated data (seed C19-r3)
		ok := BoolT(e.decideBool(App("json.hasPerm", BoolSort, meta)))
		n := App("json.nchan", IntSort, meta)
		alts := []*Term{Eq(n, IntI(0)), Eq(n, IntI(1)), Not(Or(Eq(n, IntI(0)), Eq(n, IntI(1))))}
		k := e.decide(alts)
		if k == 2 {
			e.assertPC(Eq(n, IntI(2)))
		}
		arr := &ArrayV{E: make([]Value, k)}
		for i := range arr.E {
			pc := e.zero(pcT).(*StructV)
			pc.F[0] = App(fmt.Sprintf("json.port%d", i), StrSort, meta)
			pc.F[1] = App(fmt.Sprintf("json.chan%d", i), StrSort, meta)
			arr.E[i] = pc
		}
		if k > 0 {
			data.F[0] = &SliceV{A: e.newObj(arr, "permchannels"), Len: k, Cap: k}
		}
		return []Value{ok, data}
	}
}

// accountAddr: address of an account value given to SetAccount
func (e *Exec) accountAddr(v Value) *Term {
	if iv, ok := v.(IfaceV); ok {
		v = iv.V
	}
	switch x := v.(type) {
	case *ModelObj:
		if ad, ok := x.F["addr"]; ok {
			return e.bytesTerm(asSlice(e, ad))
		}
	case Ptr:
		// *BridgeAccount{*BaseAccount{Address string,...}} — built by real code from an address
		inner := e.peek(x)
		if sv, ok := inner.(*StructV); ok {
			if t := findAddrString(e, sv); t != nil {
				return App("addr.of.acc", BytesSort, t)
			}
		}
	}
	e.unsupported(fmt.Sprintf("account value %T", v))
	return nil
}

func findAddrString(e *Exec, sv *StructV) *Term {
	for _, f := range sv.F {
		switch x := f.(type) {
		case *Term:
			if x.S == StrSort {
				return x
			}
		case Ptr:
			if x.O != nil {
				if in, ok := e.peek(x).(*StructV); ok {
					if t := findAddrString(e, in); t != nil {
						return t
					}
				}
			}
		case *StructV:
			if t := findAddrString(e, x); t != nil {
				return t
			}
		}
	}
	return nil
}

// interface-typed keeper fields become model objects named after the interface
func (e *Exec) ifaceModel(t types.Type, name string) (Value, bool) {
	tk := typeKey(t)
	switch {
	case strings.HasSuffix(tk, "types.AccountKeeper"):
		return IfaceV{V: &ModelObj{Kind: "authkeeper"}}, true
	case strings.HasSuffix(tk, "types.BankKeeper"):
		return IfaceV{V: &ModelObj{Kind: "bankkeeper"}}, true
	case strings.HasSuffix(tk, "types.CommunityPoolKeeper"):
		return IfaceV{V: &ModelObj{Kind: "communitypool"}}, true
	case strings.HasSuffix(tk, "ophost/types.BridgeHook"):
		return IfaceV{V: &ModelObj{Kind: "bridgehook"}}, true
	case tk == "cosmossdk.io/core/address.Codec":
		kind := "acc"
		if strings.Contains(strings.ToLower(name), "validator") {
			kind = "val"
		} else if strings.Contains(strings.ToLower(name), "consensus") {
			kind = "cons"
		}
		return IfaceV{V: &ModelObj{Kind: "addrcodec", Name: kind}}, true
	case tk == "github.com/cosmos/cosmos-sdk/codec.Codec":
		return IfaceV{V: &ModelObj{Kind: "codec"}}, true
	case tk == "cosmossdk.io/core/store.KVStoreService":
		return IfaceV{V: &ModelObj{Kind: "kvstoreservice"}}, true
	case strings.HasSuffix(tk, "types.OracleKeeper"):
		return IfaceV{V: &ModelObj{Kind: "oraclekeeper"}}, true
	case tk == "cosmossdk.io/log.Logger":
		return IfaceV{V: &ModelObj{Kind: "logger"}}, true
	}
	return nil, false
}

// function-typed keeper fields (tx decoder, ante handler): nondeterministic stubs, see models_opchild.go
func (e *Exec) funcModel(t types.Type, name string) (Value, bool) {
	if f, ok := funcModels[sliceKey(name)]; ok {
		return f(e, name), true
	}
	return nil, false
}

var funcModels = map[string]func(e *Exec, name string) Value{}
