package main

import (
	"fmt"
	"go/types"
	"math/big"
	"strings"

	"golang.org/x/tools/go/ssa"
)

// Value is one of: *Term (scalars, strings), *StructV, *ArrayV, Ptr, *SliceV, IfaceV, *FuncV, *MapV, TupleV,
// or a model value (IntV, TimeV, DecV, *ErrV, *CollV, *CtxV, *ModelObj, ...).
type Value interface{}

type StructV struct {
	T types.Type
	F []Value
}
type ArrayV struct {
	E []Value
	// Chunk: the result of copy(array[off:off+region], symbolicString) — the first N bytes of the region are the
	// bytes of the term (N symbolic when the string fits, the region length when it was truncated); the elements
	// of the region themselves are unconstrained stand-ins, meaningful only through bytesTerm / a reslice up to N
	Chunk *arrChunk
}

type arrChunk struct {
	Off, Region int
	Bytes       *Term // Bytes sort
	N           *Term // number of bytes copied (Int or BV64 constant)
}

type Obj struct {
	V    Value
	Name string
}

// Ptr: pointer to (a sub-location of) a heap object. O == nil is the nil pointer.
type Ptr struct {
	O    *Obj
	Path []int
}

// SliceV: a window on a backing array object, or an opaque byte string (Op != nil) whose length is symbolic.
type SliceV struct {
	A             *Obj
	Off, Len, Cap int
	Nil           bool
	Op            *Term // opaque Bytes term
}

type IfaceV struct {
	T types.Type // dynamic type (nil for model values and for the nil interface)
	V Value      // nil ⇒ nil interface
}

type FuncV struct {
	Fn     *ssa.Function
	Bind   []Value
	Native func(e *Exec, args []Value) []Value
	Name   string
}

type MapObj struct {
	K, V []Value
	KT   types.Type
	VT   types.Type
}
type MapV struct{ M *MapObj } // M == nil ⇒ nil map

type TupleV []Value

// ---- model values ----

// IntV models cosmossdk.io/math.Int and *big.Int as an SMT Int.
type IntV struct {
	T   *Term
	Nil bool
}

// DecV models LegacyDec: value = T / 10^18.
type DecV struct {
	T   *Term
	Nil bool
}

// TimeV models time.Time for header / protobuf times: seconds since the Unix epoch and nanoseconds.
type TimeV struct{ Sec, Nsec *Term }

// ErrV is the dynamic value of a non-nil error.
type ErrV struct {
	Root string // identity of the registered/sentinel error at the root of the chain ("" = none)
	Msg  *Term  // Str
	Code string
}

// ModelObj: engine-side object standing for an environment interface/struct.
type ModelObj struct {
	Kind string
	Name string
	F    map[string]Value
}

func nilPtr() Ptr { return Ptr{} }

func (p Ptr) IsNil() bool { return p.O == nil }

func deepCopy(v Value) Value {
	switch x := v.(type) {
	case *StructV:
		n := &StructV{T: x.T, F: make([]Value, len(x.F))}
		for i, f := range x.F {
			n.F[i] = deepCopy(f)
		}
		return n
	case *ArrayV:
		n := &ArrayV{E: make([]Value, len(x.E)), Chunk: x.Chunk}
		for i, f := range x.E {
			n.E[i] = deepCopy(f)
		}
		return n
	case TupleV:
		n := make(TupleV, len(x))
		for i, f := range x {
			n[i] = deepCopy(f)
		}
		return n
	}
	return v
}

func (p Ptr) sub(i int) Ptr {
	np := make([]int, len(p.Path)+1)
	copy(np, p.Path)
	np[len(p.Path)] = i
	return Ptr{O: p.O, Path: np}
}

func (e *Exec) load(p Ptr) Value {
	if p.O == nil {
		e.goPanicStr("runtime error: invalid memory address or nil pointer dereference")
	}
	v := p.O.V
	for _, i := range p.Path {
		switch c := v.(type) {
		case *StructV:
			v = c.F[i]
		case *ArrayV:
			if i >= len(c.E) {
				e.unsupported("load past array end")
			}
			v = c.E[i]
		default:
			e.unsupported(fmt.Sprintf("load: path into %T", v))
		}
	}
	return deepCopy(v)
}

func (e *Exec) store(p Ptr, val Value) {
	if p.O == nil {
		e.goPanicStr("runtime error: invalid memory address or nil pointer dereference")
	}
	val = deepCopy(val)
	if len(p.Path) == 0 {
		p.O.V = val
		return
	}
	v := p.O.V
	for k, i := range p.Path {
		last := k == len(p.Path)-1
		switch c := v.(type) {
		case *StructV:
			if last {
				c.F[i] = val
				return
			}
			v = c.F[i]
		case *ArrayV:
			if last {
				c.E[i] = val
				return
			}
			v = c.E[i]
		default:
			e.unsupported(fmt.Sprintf("store: path into %T", v))
		}
	}
}

func typeKey(t types.Type) string {
	return types.TypeString(t, nil)
}

func isNamed(t types.Type, name string) bool {
	return typeKey(t) == name
}

// width/sign of an integer type
func intInfo(t types.Type) (w int, signed bool, ok bool) {
	b, isB := t.Underlying().(*types.Basic)
	if !isB {
		return 0, false, false
	}
	switch b.Kind() {
	case types.Int8:
		return 8, true, true
	case types.Int16:
		return 16, true, true
	case types.Int32, types.UntypedRune:
		return 32, true, true
	case types.Int64, types.Int, types.UntypedInt:
		return 64, true, true
	case types.Uint8:
		return 8, false, true
	case types.Uint16:
		return 16, false, true
	case types.Uint32:
		return 32, false, true
	case types.Uint64, types.Uint, types.Uintptr:
		return 64, false, true
	}
	return 0, false, false
}

func isString(t types.Type) bool {
	b, ok := t.Underlying().(*types.Basic)
	return ok && b.Info()&types.IsString != 0
}
func isBool(t types.Type) bool {
	b, ok := t.Underlying().(*types.Basic)
	return ok && b.Info()&types.IsBoolean != 0
}
func isFloat(t types.Type) bool {
	b, ok := t.Underlying().(*types.Basic)
	return ok && b.Info()&(types.IsFloat|types.IsComplex) != 0
}

// model-typed named types: zero value and symbolic value constructors
var modelTypes = map[string]struct {
	zero func() Value
	sym  func(e *Exec, name string, t types.Type) Value
}{}

func (e *Exec) zero(t types.Type) Value {
	if m, ok := modelTypes[typeKey(t)]; ok && m.zero != nil {
		return m.zero()
	}
	if m, ok := modelTypes[namedOrigin(t)]; ok && m.zero != nil {
		return m.zero()
	}
	switch u := t.Underlying().(type) {
	case *types.Basic:
		if typeKey(t) == "time.Duration" {
			return IntI(0)
		}
		if w, _, ok := intInfo(t); ok {
			return BVU(0, w)
		}
		if isBool(t) {
			return False
		}
		if isString(t) {
			return StrLit("")
		}
		if isFloat(t) {
			return &ModelObj{Kind: "float"}
		}
		if u.Kind() == types.UnsafePointer {
			return nilPtr()
		}
		if u.Kind() == types.UntypedNil {
			return nilPtr()
		}
	case *types.Pointer:
		return nilPtr()
	case *types.Slice:
		return &SliceV{Nil: true}
	case *types.Map:
		return &MapV{}
	case *types.Signature:
		return (*FuncV)(nil)
	case *types.Interface:
		return IfaceV{}
	case *types.Chan:
		return &ModelObj{Kind: "chan"}
	case *types.Struct:
		s := &StructV{T: t, F: make([]Value, u.NumFields())}
		for i := 0; i < u.NumFields(); i++ {
			s.F[i] = e.zero(u.Field(i).Type())
		}
		return s
	case *types.Array:
		a := &ArrayV{E: make([]Value, u.Len())}
		for i := range a.E {
			a.E[i] = e.zero(u.Elem())
		}
		return a
	case *types.Tuple:
		tv := make(TupleV, u.Len())
		for i := range tv {
			tv[i] = e.zero(u.At(i).Type())
		}
		return tv
	}
	e.unsupported("zero value of " + t.String())
	return nil
}

// constant → Value
func (e *Exec) constValue(c *ssa.Const) Value {
	t := c.Type()
	if c.Value == nil {
		return e.zero(t)
	}
	if typeKey(t) == "time.Duration" {
		return IntI(c.Int64())
	}
	if w, signed, ok := intInfo(t); ok {
		if signed {
			return BVI(c.Int64(), w)
		}
		return BVU(c.Uint64(), w)
	}
	if isBool(t) {
		return BoolT(constantBool(c))
	}
	if isString(t) {
		return StrLit(constantString(c))
	}
	if isFloat(t) {
		return &ModelObj{Kind: "float", Name: c.Value.ExactString()}
	}
	e.unsupported("constant of type " + t.String())
	return nil
}

func describe(v Value) string {
	switch x := v.(type) {
	case nil:
		return "<nil>"
	case *Term:
		s := x.SMT()
		if len(s) > 200 {
			s = s[:200] + "..."
		}
		return s
	case *StructV:
		var parts []string
		for _, f := range x.F {
			parts = append(parts, describe(f))
		}
		return "{" + strings.Join(parts, ", ") + "}"
	case *ArrayV:
		return fmt.Sprintf("[%d]array", len(x.E))
	case Ptr:
		if x.O == nil {
			return "nilptr"
		}
		return fmt.Sprintf("&%s%v", x.O.Name, x.Path)
	case *SliceV:
		if x.Op != nil {
			return "bytes(" + describe(x.Op) + ")"
		}
		if x.Nil {
			return "nilslice"
		}
		return fmt.Sprintf("slice[%d:%d:%d]", x.Off, x.Off+x.Len, x.Off+x.Cap)
	case IfaceV:
		if x.V == nil {
			return "niliface"
		}
		return "iface(" + describe(x.V) + ")"
	case IntV:
		if x.Nil {
			return "Int(nil)"
		}
		return "Int(" + describe(x.T) + ")"
	case TimeV:
		return "Time(" + describe(x.Sec) + "," + describe(x.Nsec) + ")"
	case *ErrV:
		return "err(" + x.Root + ": " + describe(x.Msg) + ")"
	case *ModelObj:
		return "model:" + x.Kind + ":" + x.Name
	}
	return fmt.Sprintf("%T", v)
}

var big1 = big.NewInt(1)
