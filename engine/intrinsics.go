package main

import (
	"fmt"
	"go/types"
	"os"
	"strings"

	"golang.org/x/tools/go/ssa"
)

type Intrinsic func(e *Exec, fn *ssa.Function, args []Value) []Value

var intrinsics = map[string]Intrinsic{}

func argStr(e *Exec, v Value) string {
	t, ok := v.(*Term)
	if !ok || !t.IsStrLit() {
		e.unsupported("intrinsic needs a constant string argument")
	}
	return t.Str
}

func argInt(e *Exec, v Value) int {
	t, ok := v.(*Term)
	if !ok || !t.IsConst() {
		e.unsupported("intrinsic needs a constant integer argument")
	}
	if t.S.K == SBV {
		return int(t.Signed().Int64())
	}
	return int(t.N.Int64())
}

func (e *Exec) callerPos() string {
	// position of the innermost harness-level call site is not tracked per instruction; report the function
	if len(e.frames) > 0 {
		return e.frames[len(e.frames)-1].fn.Name()
	}
	return ""
}

func (e *Exec) symBytes(name string, n, capacity int) *SliceV {
	arr := &ArrayV{E: make([]Value, capacity)}
	if n > 0 {
		bv := e.fresh(name, BV(8*n))
		for i := 0; i < n; i++ {
			hi := 8*n - 1 - 8*i
			arr.E[i] = Extract(bv, hi, hi-7)
		}
	}
	for i := n; i < capacity; i++ {
		arr.E[i] = e.fresh(fmt.Sprintf("%s.spare%d", name, i-n), BV(8))
	}
	return &SliceV{A: e.newObj(arr, name), Len: n, Cap: capacity}
}

func init() {
	intrinsics["verifSymU64"] = func(e *Exec, fn *ssa.Function, a []Value) []Value {
		return []Value{e.fresh(argStr(e, a[0]), BV(64))}
	}
	intrinsics["verifSymI64"] = intrinsics["verifSymU64"]
	intrinsics["verifSymU32"] = func(e *Exec, fn *ssa.Function, a []Value) []Value {
		return []Value{e.fresh(argStr(e, a[0]), BV(32))}
	}
	intrinsics["verifSymU8"] = func(e *Exec, fn *ssa.Function, a []Value) []Value {
		return []Value{e.fresh(argStr(e, a[0]), BV(8))}
	}
	intrinsics["verifSymBool"] = func(e *Exec, fn *ssa.Function, a []Value) []Value {
		return []Value{e.fresh(argStr(e, a[0]), BoolSort)}
	}
	intrinsics["verifSymStr"] = func(e *Exec, fn *ssa.Function, a []Value) []Value {
		return []Value{e.fresh(argStr(e, a[0]), StrSort)}
	}
	intrinsics["verifSymQty64"] = func(e *Exec, fn *ssa.Function, a []Value) []Value {
		t := e.fresh(argStr(e, a[0]), IntSort)
		e.assertPC(And(IGe(t, IntConst(new(bigInt).Neg(pow2(63)))), ILt(t, IntConst(pow2(63)))))
		return []Value{t}
	}
	// an unsigned 64-bit quantity as an integer shadow (gas): 0 <= x < 2^64
	intrinsics["verifSymQtyU64"] = func(e *Exec, fn *ssa.Function, a []Value) []Value {
		t := e.fresh(argStr(e, a[0]), IntSort)
		e.assertPC(And(IGe(t, IntI(0)), ILt(t, IntConst(pow2(64)))))
		return []Value{t}
	}
	intrinsics["verifSymDuration"] = func(e *Exec, fn *ssa.Function, a []Value) []Value {
		t := e.fresh(argStr(e, a[0]), IntSort)
		e.assertPC(And(IGe(t, IntConst(new(bigInt).Neg(pow2(63)))), ILt(t, IntConst(pow2(63)))))
		return []Value{t}
	}
	intrinsics["verifSymInt"] = func(e *Exec, fn *ssa.Function, a []Value) []Value {
		t := e.fresh(argStr(e, a[0]), IntSort)
		e.assertPC(And(IGt(t, IntConst(new(bigInt).Neg(pow2(128)))), ILt(t, IntConst(pow2(128)))))
		return []Value{IntV{T: t}}
	}
	intrinsics["verifSymTime"] = func(e *Exec, fn *ssa.Function, a []Value) []Value {
		return []Value{e.symTime(argStr(e, a[0]))}
	}
	intrinsics["verifSymBytes"] = func(e *Exec, fn *ssa.Function, a []Value) []Value {
		n := argInt(e, a[1])
		return []Value{e.symBytes(argStr(e, a[0]), n, n)}
	}
	intrinsics["verifSymBytesCap"] = func(e *Exec, fn *ssa.Function, a []Value) []Value {
		return []Value{e.symBytes(argStr(e, a[0]), argInt(e, a[1]), argInt(e, a[2]))}
	}
	intrinsics["verifOpaqueBytes"] = func(e *Exec, fn *ssa.Function, a []Value) []Value {
		return []Value{&SliceV{Op: e.fresh(argStr(e, a[0]), BytesSort)}}
	}
	intrinsics["verifSymLen"] = func(e *Exec, fn *ssa.Function, a []Value) []Value {
		lo, hi := argInt(e, a[1]), argInt(e, a[2])
		tag := e.fresh(argStr(e, a[0]), IntSort)
		alts := make([]*Term, hi-lo+1)
		for i := range alts {
			alts[i] = Eq(tag, IntI(int64(lo+i)))
		}
		if len(alts) > 1 {
			alts[len(alts)-1] = Not(Or(alts[:len(alts)-1]...))
		} else {
			alts[0] = True
			e.assertPC(Eq(tag, IntI(int64(lo))))
		}
		k := e.decide(alts)
		e.assertPC(Eq(tag, IntI(int64(lo+k))))
		return []Value{BVU(uint64(lo+k), 64)}
	}
	intrinsics["verifChoice"] = func(e *Exec, fn *ssa.Function, a []Value) []Value {
		n := argInt(e, a[1])
		tag := e.fresh(argStr(e, a[0]), IntSort)
		alts := make([]*Term, n)
		for i := range alts {
			alts[i] = Eq(tag, IntI(int64(i)))
		}
		if n > 1 {
			alts[n-1] = Not(Or(alts[:n-1]...))
		} else {
			alts[0] = True
		}
		k := e.decide(alts)
		e.assertPC(Eq(tag, IntI(int64(k))))
		return []Value{BVU(uint64(k), 64)}
	}
	intrinsics["verifAssume"] = func(e *Exec, fn *ssa.Function, a []Value) []Value {
		c := a[0].(*Term)
		if c.IsFalse() {
			e.end("assumed", "assumption false")
		}
		if c.IsTrue() {
			return nil
		}
		r := e.sol.Check(c)
		if r == "unsat" {
			e.end("assumed", "assumption infeasible")
		}
		if r != "sat" {
			e.res.Unknowns++
		}
		e.assertPC(c)
		return nil
	}
	intrinsics["verifAssert"] = func(e *Exec, fn *ssa.Function, a []Value) []Value {
		label := argStr(e, a[0])
		c := a[1].(*Term)
		e.checkAssert(label, c)
		return nil
	}
	intrinsics["verifReach"] = func(e *Exec, fn *ssa.Function, a []Value) []Value {
		e.res.Reached = append(e.res.Reached, argStr(e, a[0]))
		return nil
	}
	intrinsics["verifFail"] = func(e *Exec, fn *ssa.Function, a []Value) []Value {
		e.checkAssert(argStr(e, a[0]), False)
		return nil
	}
	// verifKnown(id, cond): region of a recorded finding. mode (from the driver): "exclude" assumes ¬cond
	// when the id is listed as known; "only" assumes cond. Returns cond.
	intrinsics["verifKnown"] = func(e *Exec, fn *ssa.Function, a []Value) []Value {
		id := argStr(e, a[0])
		c := a[1].(*Term)
		switch knownMode(id) {
		case "exclude":
			if c.IsTrue() {
				e.end("assumed", "known-finding region "+id)
			}
			if !c.IsFalse() {
				if e.sol.Check(Not(c)) == "unsat" {
					e.end("assumed", "known-finding region "+id)
				}
				e.assertPC(Not(c))
			}
			return []Value{False}
		case "only":
			if c.IsFalse() {
				e.end("assumed", "outside known-finding region "+id)
			}
			if !c.IsTrue() {
				if e.sol.Check(c) == "unsat" {
					e.end("assumed", "outside known-finding region "+id)
				}
				e.assertPC(c)
			}
			e.res.KnownHit = append(e.res.KnownHit, id)
			return []Value{True}
		}
		return []Value{c}
	}
	intrinsics["verifThorough"] = func(e *Exec, fn *ssa.Function, a []Value) []Value {
		return []Value{BoolT(e.W.tier == "thorough")}
	}
	intrinsics["verifConfig"] = func(e *Exec, fn *ssa.Function, a []Value) []Value {
		key, val := argStr(e, a[0]), argInt(e, a[1])
		switch {
		case key == "unwind":
			e.cfg.Unwind = val
		case key == "maporder":
			e.cfg.MapOrderSymbolic = val != 0
		case key == "idealhash":
			e.cfg.IdealHash = val != 0
		case strings.HasPrefix(key, "store:"):
			e.cfg.Stores[key[6:]] = val
		case strings.HasPrefix(key, "len:"):
			e.cfg.SliceLens[key[4:]] = [2]int{val, val}
		case strings.HasPrefix(key, "maxlen:"):
			r := e.cfg.SliceLens[key[7:]]
			r[1] = val
			e.cfg.SliceLens[key[7:]] = r
		default:
			e.cfg.Opts[key] = val
		}
		return nil
	}
	// verifDistinctHashes(): idealised hash — injectivity instances over every hash application seen so far
	intrinsics["verifIdealHash"] = func(e *Exec, fn *ssa.Function, a []Value) []Value {
		e.cfg.IdealHash = true
		return nil
	}
	intrinsics["verifSym"] = func(e *Exec, fn *ssa.Function, a []Value) []Value {
		// generic: verifSym[T](name) — symbolic value of the instantiated result type
		rt := fn.Signature.Results().At(0).Type()
		return []Value{e.symValue(rt, argStr(e, a[0]))}
	}
	// verifFreshChain: a context over a second, empty chain state (same block context as the argument)
	intrinsics["verifFreshChain"] = func(e *Exec, fn *ssa.Function, a []Value) []Value {
		c := ctxOf(e, a[0]).copy()
		c.St = newState()
		c.St.Empty = true
		c.Em = &EventMgr{}
		return []Value{c}
	}
	// verifOtherChain(name): a context over a SECOND chain with its own arbitrary state, bank and block context
	// (joint harnesses over the L1 and the L2 module); its initial symbols and store records carry the prefix name+"/"
	intrinsics["verifOtherChain"] = func(e *Exec, fn *ssa.Function, a []Value) []Value {
		name := argStr(e, a[0])
		c := e.newCtx(name)
		c.St = newState()
		c.St.Prefix = name + "/"
		return []Value{c}
	}
	intrinsics["verifNote"] = func(e *Exec, fn *ssa.Function, a []Value) []Value { return nil }
	intrinsics["verifDescribe"] = func(e *Exec, fn *ssa.Function, a []Value) []Value {
		fmt.Printf("DESCRIBE %s: %s\n", argStr(e, a[0]), describe(a[1]))
		return nil
	}
}

var knownModes = map[string]string{}

func knownMode(id string) string { return knownModes[id] }

// checkAssert discharges PC ∧ ¬c
func (e *Exec) checkAssert(label string, c *Term) {
	rec := AssertRec{Label: label}
	switch {
	case c.IsTrue():
		rec.Result = "trivial"
	default:
		if e.cfg.IdealHash {
			e.addHashAxioms()
		}
		var neg *Term
		if !c.IsFalse() {
			neg = Not(c)
		}
		r := e.sol.Check(neg)
		switch r {
		case "unsat":
			rec.Result = "proved"
		case "sat":
			if e.W.trace {
				txt := c.SMT()
				if len(txt) > 3000 {
					txt = txt[:3000] + "..."
				}
				fmt.Fprintf(os.Stderr, "VIOLATED %q: %s\n", label, txt)
			}
			rec.Result = "violated"
			rec.Cex = e.writeCex(label, e.buildCex(label, neg))
		default:
			rec.Result = "unknown"
			rec.Pos = r
		}
	}
	e.res.Asserts = append(e.res.Asserts, rec)
	if rec.Result == "violated" {
		// continue under the assumption that the assertion holds, if that is still possible
		if c.IsFalse() || e.sol.Check(c) == "unsat" {
			e.end("ok", "assertion violated on every continuation")
		}
	}
	e.assertPC(c)
}

func (e *Exec) modelTerms() []*Term {
	var out []*Term
	for _, s := range e.syms {
		out = append(out, s)
	}
	return out
}

// symValue: arbitrary value of a Go type (see models for the model-typed cases)
func (e *Exec) symValue(t types.Type, name string) Value {
	if m, ok := modelTypes[typeKey(t)]; ok && m.sym != nil {
		return m.sym(e, name, t)
	}
	if m, ok := modelTypes[namedOrigin(t)]; ok && m.sym != nil {
		return m.sym(e, name, t)
	}
	switch u := t.Underlying().(type) {
	case *types.Basic:
		if typeKey(t) == "time.Duration" {
			d := e.fresh(name, IntSort)
			e.assertPC(And(IGe(d, IntConst(new(bigInt).Neg(pow2(63)))), ILt(d, IntConst(pow2(63)))))
			return d
		}
		if w, signed, ok := intInfo(t); ok {
			if w == 64 && signed && isQuantityName(name) {
				// quantities (voting power) are integer shadows: arithmetic on them stays in linear integer
				// arithmetic instead of mixing bit-vectors and integers (DESIGN §4)
				q := e.fresh(name, IntSort)
				e.assertPC(And(IGe(q, IntConst(new(bigInt).Neg(pow2(63)))), ILt(q, IntConst(pow2(63)))))
				return q
			}
			return e.fresh(name, BV(w))
		}
		if isBool(t) {
			return e.fresh(name, BoolSort)
		}
		if isString(t) {
			return e.fresh(name, StrSort)
		}
	case *types.Struct:
		s := &StructV{T: t, F: make([]Value, u.NumFields())}
		for i := 0; i < u.NumFields(); i++ {
			f := u.Field(i)
			s.F[i] = e.symValue(f.Type(), name+"."+f.Name())
		}
		return s
	case *types.Array:
		if b, ok := u.Elem().Underlying().(*types.Basic); ok && b.Kind() == types.Uint8 {
			return arrayOfBV(e.fresh(name, BV(8*int(u.Len()))))
		}
		a := &ArrayV{E: make([]Value, u.Len())}
		for i := range a.E {
			a.E[i] = e.symValue(u.Elem(), fmt.Sprintf("%s[%d]", name, i))
		}
		return a
	case *types.Slice:
		if b, ok := u.Elem().Underlying().(*types.Basic); ok && b.Kind() == types.Uint8 {
			return &SliceV{Op: e.fresh(name, BytesSort)}
		}
		lo, hi := 0, 2
		if r, ok := e.cfg.SliceLens[sliceKey(name)]; ok {
			lo, hi = r[0], r[1]
		} else if r, ok := e.cfg.SliceLens["*"]; ok {
			lo, hi = r[0], r[1]
		}
		n := lo
		if hi > lo {
			tag := e.fresh(name+".len", IntSort)
			alts := make([]*Term, hi-lo+1)
			for i := range alts {
				alts[i] = Eq(tag, IntI(int64(lo+i)))
			}
			alts[len(alts)-1] = Not(Or(alts[:len(alts)-1]...))
			n = lo + e.decide(alts)
			e.assertPC(Eq(tag, IntI(int64(n))))
		}
		arr := &ArrayV{E: make([]Value, n)}
		for i := range arr.E {
			arr.E[i] = e.symValue(u.Elem(), fmt.Sprintf("%s[%d]", name, i))
		}
		if n == 0 {
			return &SliceV{Nil: true}
		}
		return &SliceV{A: e.newObj(arr, name), Len: n, Cap: n}
	case *types.Pointer:
		// pointers to structs under construction close cycles (keeper <-> oracle handler)
		key := typeKey(u.Elem())
		if _, isStruct := u.Elem().Underlying().(*types.Struct); isStruct {
			if p, ok := e.symPtrs[key]; ok {
				return p
			}
			o := e.newObj(nil, name)
			e.symPtrs[key] = Ptr{O: o}
			o.V = e.symValue(u.Elem(), name)
			delete(e.symPtrs, key)
			return Ptr{O: o}
		}
		return Ptr{O: e.newObj(e.symValue(u.Elem(), name), name)}
	case *types.Interface:
		if v, ok := e.ifaceModel(t, name); ok {
			return v
		}
		// environment interfaces without a model: usable as values, unsupported when called
		return IfaceV{V: &ModelObj{Kind: "opaque:" + typeKey(t), Name: name}}
	case *types.Map:
		return &MapV{M: &MapObj{KT: u.Key(), VT: u.Elem()}}
	case *types.Signature:
		if v, ok := e.funcModel(t, name); ok {
			return v
		}
		return &FuncV{Name: "opaque:" + name, Native: func(e *Exec, a []Value) []Value {
			e.unsupported("call of environment function without model: " + name)
			return nil
		}}
	}
	e.unsupported("symbolic value of type " + t.String() + " (" + name + ")")
	return nil
}

func isQuantityName(name string) bool {
	return strings.Contains(name, "Power") || strings.HasSuffix(name, ".power")
}

// sliceKey strips store-entry decorations: "Params.BridgeExecutors" from "st.Params#1.BridgeExecutors"
func sliceKey(name string) string {
	if i := strings.LastIndex(name, "."); i >= 0 {
		return name[i+1:]
	}
	return name
}
