package main

import (
	"fmt"
	"go/types"
	"strings"

	"golang.org/x/tools/go/ssa"
)

// ---------- Any / public keys ----------

var pkSort = Sort{K: SUn, Name: "PubKey"}

func (e *Exec) newPubKey(t *Term) *ModelObj {
	return &ModelObj{Kind: "pubkey", F: map[string]Value{"term": t}}
}

func (e *Exec) newAny(cached Value) Ptr {
	return Ptr{O: e.newObj(&ModelObj{Kind: "any", F: map[string]Value{"cached": cached}}, "any")}
}

func anyOf(e *Exec, v Value) *ModelObj {
	if iv, ok := v.(IfaceV); ok {
		v = iv.V
	}
	if p, ok := v.(Ptr); ok {
		if p.O == nil {
			e.goPanicStr("runtime error: invalid memory address or nil pointer dereference (nil *Any)")
		}
		v = e.peek(p)
	}
	m, ok := v.(*ModelObj)
	if !ok || m.Kind != "any" {
		e.unsupported(fmt.Sprintf("expected *Any, got %T", v))
	}
	return m
}

func pkTerm(e *Exec, v Value) *Term {
	if iv, ok := v.(IfaceV); ok {
		v = iv.V
	}
	m, ok := v.(*ModelObj)
	if !ok || m.Kind != "pubkey" {
		e.unsupported(fmt.Sprintf("expected PubKey, got %T", v))
	}
	return m.F["term"].(*Term)
}

func init() {
	modelTypes["github.com/cosmos/cosmos-sdk/codec/types.Any"] = mt{
		zero: func() Value { return &ModelObj{Kind: "any", F: map[string]Value{"cached": IfaceV{}}} },
		sym: func(e *Exec, name string, t types.Type) Value {
			// an Any holding a consensus public key (the only Any the validator code unpacks)
			pk := e.newPubKey(e.fresh(name+".pubkey", pkSort))
			return &ModelObj{Kind: "any", F: map[string]Value{"cached": IfaceV{V: pk}}}
		},
	}
	an := "(*github.com/cosmos/cosmos-sdk/codec/types.Any)."
	models[an+"GetCachedValue"] = func(e *Exec, a []Value) []Value {
		if p, ok := a[0].(Ptr); ok && p.O == nil {
			return []Value{IfaceV{}}
		}
		c := anyOf(e, a[0]).F["cached"]
		if iv, ok := c.(IfaceV); ok {
			return []Value{iv}
		}
		return []Value{IfaceV{V: c}}
	}
	models[an+"Equal"] = func(e *Exec, a []Value) []Value {
		x, y := anyOf(e, a[0]), anyOf(e, a[1])
		return []Value{e.eqValue(x.F["cached"], y.F["cached"])}
	}
	models["github.com/cosmos/cosmos-sdk/codec/types.NewAnyWithValue"] = func(e *Exec, a []Value) []Value {
		iv, _ := a[0].(IfaceV)
		if iv.V == nil {
			return []Value{nilPtr(), errIface("", StrLit("Expecting non nil value to create a new Any"))}
		}
		return []Value{e.newAny(iv), nilErr()}
	}
	models["pubkey.Address"] = func(e *Exec, a []Value) []Value {
		return []Value{&SliceV{Op: App("pk.addr", BytesSort, pkTerm(e, a[0]))}}
	}
	models["pubkey.Type"] = func(e *Exec, a []Value) []Value {
		return []Value{App("pk.type", StrSort, pkTerm(e, a[0]))}
	}
	models["pubkey.Bytes"] = func(e *Exec, a []Value) []Value {
		return []Value{&SliceV{Op: App("pk.bytes", BytesSort, pkTerm(e, a[0]))}}
	}
	models["pubkey.Equals"] = func(e *Exec, a []Value) []Value {
		return []Value{Eq(pkTerm(e, a[0]), pkTerm(e, a[1]))}
	}
	models["pubkey.VerifySignature"] = func(e *Exec, a []Value) []Value {
		return []Value{App("pk.sigOK", BoolSort, pkTerm(e, a[0]), e.bytesTerm(asSlice(e, a[1])), e.bytesTerm(asSlice(e, a[2])))}
	}
	// consensus address = hash of the key: idealised as injective (distinct keys, distinct addresses)
	instanceAxioms["pk.addr"] = func(t *Term) []*Term {
		return []*Term{Eq(App("pk.addr.inv", pkSort, t), t.Args[0]), Eq(App("b.len", IntSort, t), IntI(20))}
	}
	instanceAxioms["pk.bytes"] = func(t *Term) []*Term {
		return []*Term{Eq(App("pk.bytes.inv", pkSort, t), t.Args[0])}
	}
	models["github.com/cosmos/cosmos-sdk/crypto/codec.ToCmtProtoPublicKey"] = func(e *Exec, a []Value) []Value {
		t := e.W.typeByName("github.com/cometbft/cometbft/proto/tendermint/crypto", "PublicKey")
		pk := e.zero(t).(*StructV)
		pk.F[0] = IfaceV{V: &ModelObj{Kind: "tmpk", F: map[string]Value{"term": pkTerm(e, a[0])}}}
		return []Value{pk, nilErr()}
	}
	pkeq := func(e *Exec, a []Value) []Value {
		get := func(v Value) Value {
			if p, ok := v.(Ptr); ok {
				v = e.peek(p)
			}
			if iv, ok := v.(IfaceV); ok {
				v = iv.V
				if p, ok := v.(Ptr); ok {
					v = e.peek(p)
				}
			}
			return v
		}
		x, ok1 := get(a[0]).(*StructV)
		y, ok2 := get(a[1]).(*StructV)
		if !ok1 || !ok2 {
			return []Value{False}
		}
		return []Value{e.eqValue(x.F[0], y.F[0])}
	}
	models["(*github.com/cometbft/cometbft/proto/tendermint/crypto.PublicKey).Equal"] = pkeq
	models["(github.com/cosmos/cosmos-sdk/types.ValAddress).String"] = func(e *Exec, a []Value) []Value {
		s := asSlice(e, a[0])
		if s.Op == nil && (s.Nil || s.Len == 0) {
			return []Value{StrLit("")}
		}
		return []Value{App("addr.str.val", StrSort, e.bytesTerm(s))}
	}
	models["(github.com/cosmos/cosmos-sdk/types.ConsAddress).String"] = func(e *Exec, a []Value) []Value {
		s := asSlice(e, a[0])
		if s.Op == nil && (s.Nil || s.Len == 0) {
			return []Value{StrLit("")}
		}
		return []Value{App("addr.str.cons", StrSort, e.bytesTerm(s))}
	}
	models["github.com/cosmos/cosmos-sdk/types.MsgTypeURL"] = func(e *Exec, a []Value) []Value {
		iv := a[0].(IfaceV)
		if m, ok := iv.V.(*ModelObj); ok {
			if t, ok := m.F["term"].(*Term); ok {
				return []Value{App("msg.typeurl", StrSort, t)}
			}
		}
		if iv.T != nil {
			return []Value{StrLit("/" + strings.TrimPrefix(typeKey(iv.T), "*"))}
		}
		return []Value{StrLit("/unknown")}
	}

	// ---------- sort.SliceStable: stable insertion sort driven by the real less closure ----------
	stable := func(e *Exec, a []Value) []Value {
		iv := a[0].(IfaceV)
		s, ok := iv.V.(*SliceV)
		if !ok || s.Op != nil {
			e.unsupported("sort.SliceStable on a non-slice")
		}
		if s.Nil || s.Len < 2 {
			return nil
		}
		arr := s.A.V.(*ArrayV)
		for i := 1; i < s.Len; i++ {
			for j := i; j > 0; j-- {
				lt := e.callValue(a[1], []Value{BVU(uint64(j), 64), BVU(uint64(j-1), 64)})[0].(*Term)
				if !e.decideBool(lt) {
					break
				}
				arr.E[s.Off+j], arr.E[s.Off+j-1] = arr.E[s.Off+j-1], arr.E[s.Off+j]
			}
		}
		return nil
	}
	// sort.Sort / sort.Stable through the sort.Interface methods (insertion sort; keys are distinct or ties keep order)
	ifaceSort := func(e *Exec, a []Value) []Value {
		iv := a[0].(IfaceV)
		call := func(name string, args ...Value) []Value {
			fn := e.methodOf(iv.T, name, nil)
			if fn == nil {
				e.unsupported("sort.Interface method " + name)
			}
			return e.callFn(fn, append([]Value{iv.V}, args...))
		}
		nT := call("Len")[0].(*Term)
		if !nT.IsConst() {
			e.unsupported("sort over a collection of symbolic length")
		}
		n := int(nT.N.Int64())
		for i := 1; i < n; i++ {
			for j := i; j > 0; j-- {
				lt := call("Less", BVU(uint64(j), 64), BVU(uint64(j-1), 64))[0].(*Term)
				if !e.decideBool(lt) {
					break
				}
				call("Swap", BVU(uint64(j), 64), BVU(uint64(j-1), 64))
			}
		}
		return nil
	}
	models["sort.Sort"] = ifaceSort
	models["sort.Stable"] = ifaceSort
	models["strings.Compare"] = func(e *Exec, a []Value) []Value {
		x, y := asTerm(e, a[0]), asTerm(e, a[1])
		if x.IsStrLit() && y.IsStrLit() {
			return []Value{BVI(int64(strings.Compare(x.Str, y.Str)), 64)}
		}
		ox, oy := App("str.ord", IntSort, x), App("str.ord", IntSort, y)
		e.assertPC(Eq(Eq(ox, oy), strEq(x, y)))
		return []Value{Ite(ILt(ox, oy), BVI(-1, 64), Ite(strEq(x, y), BVI(0, 64), BVI(1, 64)))}
	}
	models["sort.SliceStable"] = stable
	models["sort.Slice"] = stable

	// ---------- message router / tx decoder / ante decorators / codec: nondeterministic stubs ----------
	modelTypes["github.com/cosmos/cosmos-sdk/baseapp.MsgServiceRouter"] = mt{
		zero: func() Value { return &ModelObj{Kind: "router"} },
		sym:  func(e *Exec, name string, t types.Type) Value { return &ModelObj{Kind: "router"} },
	}
	models["(*github.com/cosmos/cosmos-sdk/baseapp.MsgServiceRouter).Handler"] = func(e *Exec, a []Value) []Value {
		// a message the harness registered with verifOnRoute is routed to the handler given with it (the module's
		// own message server: hook transactions may carry the module's own messages)
		if rm, ok := e.extra["route.msg"]; ok {
			if riv, isI := rm.(IfaceV); isI {
				if miv, isM := a[1].(IfaceV); isM {
					if rp, ok1 := riv.V.(Ptr); ok1 {
						if mp, ok2 := miv.V.(Ptr); ok2 && rp.O == mp.O && rp.O != nil {
							h := e.extra["route.handler"].(Value)
							return []Value{&FuncV{Name: "routedHandler", Native: func(e *Exec, args []Value) []Value {
								return e.callValue(h, args)
							}}}
						}
					}
				}
			}
		}
		n := e.stubCount("router.Handler")
		if e.decideBool(e.fresh(fmt.Sprintf("router.%d.unroutable", n), BoolSort)) {
			return []Value{(*FuncV)(nil)}
		}
		h := &FuncV{Name: "stubHandler", Native: func(e *Exec, args []Value) []Value {
			return e.stubHandler(n, ctxOf(e, args[0]))
		}}
		return []Value{h}
	}
	funcModels["txDecoder"] = func(e *Exec, name string) Value {
		return &FuncV{Name: "txDecoder", Native: func(e *Exec, args []Value) []Value {
			clean := e.cfg.Opts["hook.clean"] == 1 // bound: the hook transaction decodes, passes the ante chain, has exactly hookmsgs messages
			if !clean && e.decideBool(e.fresh("txDecoder.fails", BoolSort)) {
				return []Value{IfaceV{}, errIface("", StrLit("tx parse error"))}
			}
			nm := e.cfg.Opts["hookmsgs"]
			if nm == 0 {
				nm = 1
			}
			k := nm
			if !clean {
				tag := e.fresh("tx.nmsgs", IntSort)
				alts := make([]*Term, nm+1)
				for i := range alts {
					alts[i] = Eq(tag, IntI(int64(i)))
				}
				alts[nm] = Not(Or(alts[:nm]...))
				k = e.decide(alts)
				e.assertPC(Eq(tag, IntI(int64(k))))
			}
			arr := &ArrayV{E: make([]Value, k)}
			for i := range arr.E {
				if rm, ok := e.extra["route.msg"]; ok && i == 0 && (e.cfg.Opts["hook.clean"] == 1 || e.decideBool(e.fresh("tx.carriesModuleMsg", BoolSort))) {
					arr.E[i] = rm.(Value) // the hook transaction carries one of the module's own messages
					continue
				}
				arr.E[i] = IfaceV{V: e.stubMsg(fmt.Sprintf("tx.msg%d", i))}
			}
			msgs := &SliceV{A: e.newObj(arr, "txmsgs"), Len: k, Cap: k}
			if k == 0 {
				msgs = &SliceV{Nil: true}
			}
			return []Value{IfaceV{V: &ModelObj{Kind: "stubtx", F: map[string]Value{"msgs": msgs}}}, nilErr()}
		}}
	}
	models["stubtx.GetMsgs"] = func(e *Exec, a []Value) []Value { return []Value{a[0].(*ModelObj).F["msgs"]} }
	funcModels["decorators"] = func(e *Exec, name string) Value {
		return &FuncV{Name: "decorators", Native: func(e *Exec, args []Value) []Value {
			c := ctxOf(e, args[0])
			if e.cfg.Opts["hook.clean"] == 1 {
				c.St.Ghost["signerSequence"] = e.fresh("ante.signerSequence", BV(64))
				return []Value{c, nilErr()}
			}
			switch e.stubOutcome("decorators") {
			case 1:
				return []Value{c, errIface("", StrLit("ante handler error"))}
			case 2:
				e.goPanicStr("ante handler panic")
			case 3:
				e.consumeAll(c)
			}
			// the signer's account sequence is the only thing the decorators touch
			c.St.Ghost["signerSequence"] = e.fresh("ante.signerSequence", BV(64))
			return []Value{c, nilErr()}
		}}
	}
	models["codec.GetMsgV1Signers"] = func(e *Exec, a []Value) []Value {
		msg := a[1].(IfaceV)
		m, _ := msg.V.(*ModelObj)
		var key *Term
		if m != nil {
			key, _ = m.F["term"].(*Term)
		}
		if key == nil {
			e.unsupported("GetMsgV1Signers on a non-stub message")
		}
		// a deterministic function of the message: does it fail, how many signers, who
		if !e.decideBool(App("msg.signersOK", BoolSort, key)) {
			return []Value{&SliceV{Nil: true}, IfaceV{}, errIface("", StrLit("cannot get signers"))}
		}
		tag := App("msg.nsigners", IntSort, key)
		alts := []*Term{Eq(tag, IntI(0)), Eq(tag, IntI(1)), Not(Or(Eq(tag, IntI(0)), Eq(tag, IntI(1))))}
		k := e.decide(alts)
		if k == 2 {
			e.assertPC(Eq(tag, IntI(2)))
		}
		arr := &ArrayV{E: make([]Value, k)}
		for i := range arr.E {
			arr.E[i] = &SliceV{Op: App(fmt.Sprintf("msg.signer%d", i), BytesSort, key)}
		}
		if k == 0 {
			return []Value{&SliceV{Nil: true}, IfaceV{}, nilErr()}
		}
		return []Value{&SliceV{A: e.newObj(arr, "signers"), Len: k, Cap: k}, IfaceV{}, nilErr()}
	}
	models["codec.UnmarshalInterfaceJSON"] = func(e *Exec, a []Value) []Value {
		bz := e.bytesTerm(asSlice(e, a[1]))
		if !e.decideBool(App("json.pubkeyOK", BoolSort, bz)) {
			return []Value{errIface("", StrLit("cannot unmarshal"))}
		}
		dst := a[2].(IfaceV).V.(Ptr)
		e.store(dst, IfaceV{V: e.newPubKey(App("json.pubkey", pkSort, bz))})
		return []Value{nilErr()}
	}
	models["stubmsg.ValidateBasic"] = func(e *Exec, a []Value) []Value {
		t := a[0].(*ModelObj).F["term"].(*Term)
		if e.decideBool(App("msg.basicOK", BoolSort, t)) {
			return []Value{nilErr()}
		}
		return []Value{errIface("", StrLit("invalid message"))}
	}
}

func init() {
	intrinsics["verifInnerMsg"] = func(e *Exec, fn *ssa.Function, a []Value) []Value {
		m := e.stubMsg(e.fresh(argStr(e, a[0]), Sort{K: SUn, Name: "MsgName"}).Str)
		return []Value{e.newAny(IfaceV{V: m})}
	}
}

func init() {
	// verifOnRoute(msg sdk.Msg, h func(context.Context, sdk.Msg) (*sdk.Result, error)): hook transactions may carry
	// this (real) message, and the router dispatches it to h
	intrinsics["verifOnRoute"] = func(e *Exec, fn *ssa.Function, a []Value) []Value {
		e.extra["route.msg"] = a[0]
		e.extra["route.handler"] = a[1]
		return nil
	}
}

func (e *Exec) stubCount(site string) int {
	n, _ := e.extra["n:"+site].(int)
	e.extra["n:"+site] = n + 1
	return n
}

// stubOutcome: 0 ok, 1 error, 2 panic, 3 out of gas
func (e *Exec) stubOutcome(site string) int {
	n := e.stubCount("outcome:" + site)
	tag := e.fresh(fmt.Sprintf("stub.%s.%d.outcome", site, n), IntSort)
	alts := []*Term{Eq(tag, IntI(0)), Eq(tag, IntI(1)), Eq(tag, IntI(2)), Not(Or(Eq(tag, IntI(0)), Eq(tag, IntI(1)), Eq(tag, IntI(2))))}
	k := e.decide(alts)
	e.assertPC(Eq(tag, IntI(int64(k))))
	return k
}

func (e *Exec) stubMsg(name string) *ModelObj {
	t := e.fresh(name, Sort{K: SUn, Name: "Msg"})
	impl := "|github.com/cosmos/cosmos-sdk/types.Msg|github.com/cosmos/gogoproto/proto.Message|"
	if e.decideBool(App("msg.hasValidateBasic", BoolSort, t)) {
		impl += "github.com/cosmos/cosmos-sdk/types.HasValidateBasic|"
	}
	return &ModelObj{Kind: "stubmsg", F: map[string]Value{"term": t, "implements": StrLit(impl)}}
}

// consumeAll: the callee burns more gas than the meter has (real meter code panics ErrorOutOfGas)
func (e *Exec) consumeAll(c *CtxV) {
	gm, ok := c.Gas.(IfaceV)
	if !ok || gm.V == nil {
		return
	}
	amt := e.fresh("stub.gasUsed", BV(64))
	desc := StrLit("stub")
	mth := e.methodOf(gm.T, "ConsumeGas", nil)
	if mth == nil {
		e.unsupported("gas meter without ConsumeGas")
	}
	e.callFn(mth, []Value{gm.V, amt, desc})
}

// stubHandler: an arbitrary message handler: consumes arbitrary gas on the context it is given, changes its
// state arbitrarily (fresh bank ledgers, a fresh marker), then returns ok / error / panics / runs out of gas.
func (e *Exec) stubHandler(n int, c *CtxV) []Value {
	if k, ok := e.extra["clock.calls"].(int); ok {
		e.extra["clock.calls"] = k + 1 // a call into another component: wall-clock time passes (time.Since)
	} else {
		e.extra["clock.calls"] = 1
	}
	e.consumeAll(c) // arbitrary gas use; may exhaust the meter
	e.bankInit(c.St)
	// effects: some balance and some supply entry change arbitrarily, and an opaque marker is written
	ha, hd := e.fresh(fmt.Sprintf("hook%d.addr", n), BytesSort), e.fresh(fmt.Sprintf("hook%d.denom", n), StrSort)
	nb := e.fresh(fmt.Sprintf("hook%d.newBalance", n), IntSort)
	ns := e.fresh(fmt.Sprintf("hook%d.newSupply", n), IntSort)
	e.assertPC(And(IGe(nb, IntI(0)), IGe(ns, IntI(0))))
	e.setBalance(c.St, ha, hd, nb)
	c.St.Sup = sto(c.St.Sup, hd, ns)
	c.St.Ghost[fmt.Sprintf("hookEffect%d", n)] = e.fresh(fmt.Sprintf("hook%d.marker", n), BV(64))
	// as the SDK's MsgServiceRouter does, the handler runs on a fresh event manager and hands its events back in
	// the Result: they reach the caller's context only if the caller forwards them
	switch e.stubOutcome("handler") {
	case 1:
		return []Value{nilPtr(), errIface("", StrLit("handler error"))}
	case 2:
		e.goPanicStr("handler panic")
	}
	rt := e.W.typeByName("github.com/cosmos/cosmos-sdk/types", "Result")
	res := e.zero(rt).(*StructV)
	if st, ok := rt.Underlying().(*types.Struct); ok {
		for i := 0; i < st.NumFields(); i++ {
			if st.Field(i).Name() == "Events" {
				res.F[i] = &SliceV{A: e.newObj(&ArrayV{E: []Value{e.stubEvent(n)}}, "resultEvents"), Len: 1, Cap: 1}
			}
		}
	}
	return []Value{Ptr{O: e.newObj(res, "result")}, nilErr()}
}

func (e *Exec) stubEvent(n int) Value {
	t := e.W.typeByName("github.com/cometbft/cometbft/abci/types", "Event")
	ev := e.zero(t).(*StructV)
	ev.F[0] = StrLit(fmt.Sprintf("stub_handler_%d", n))
	return ev
}
