package main

import (
	"fmt"
	"strings"
)

type Model func(e *Exec, args []Value) []Value

var models = map[string]Model{}
var globalModels = map[string]func(e *Exec) Value{}

func (e *Exec) addHashAxioms() {}

func (e *Exec) hashName(n int) string {
	if e.cfg.IdealHash {
		return fmt.Sprintf("IH%d", n)
	}
	return fmt.Sprintf("H%d", n)
}

// sha3.Sum256 over a byte slice
func (e *Exec) sum256(s *SliceV) *Term {
	if s.Op == nil {
		if s.Nil || s.Len == 0 {
			return App(e.hashName(0), BV(256))
		}
		bv := e.bytesBV(s)
		return App(e.hashName(s.Len), BV(256), bv)
	}
	// opaque input; a b.ofN wrapper is unwrapped so that both views of the same bytes hash alike
	if isBOf(s.Op) {
		return App(e.hashName(s.Op.Args[0].S.W/8), BV(256), s.Op.Args[0])
	}
	name := "Hb"
	if e.cfg.IdealHash {
		name = "IHb"
	}
	return App(name, BV(256), s.Op)
}

func errIface(root string, msg *Term) IfaceV {
	return IfaceV{V: &ErrV{Root: root, Msg: msg}}
}

func nilErr() IfaceV { return IfaceV{} }

func asSlice(e *Exec, v Value) *SliceV {
	s, ok := v.(*SliceV)
	if !ok {
		e.unsupported(fmt.Sprintf("expected slice, got %T", v))
	}
	return s
}

func asTerm(e *Exec, v Value) *Term {
	t, ok := v.(*Term)
	if !ok {
		e.unsupported(fmt.Sprintf("expected scalar, got %T", v))
	}
	return t
}

// bytes equality / comparison
func (e *Exec) bytesEqual(a, b *SliceV) *Term {
	if a.Op == nil && b.Op == nil {
		if a.Len != b.Len {
			return False
		}
		if a.Len == 0 {
			return True
		}
		return Eq(e.bytesBV(a), e.bytesBV(b))
	}
	return Eq(e.bytesTerm(a), e.bytesTerm(b))
}

func (e *Exec) bytesCompare(a, b *SliceV) *Term {
	if a.Op == nil && b.Op == nil {
		if a.Len == b.Len {
			if a.Len == 0 {
				return BVI(0, 64)
			}
			x, y := e.bytesBV(a), e.bytesBV(b)
			return Ite(bvCmp("bvult", x, y), BVI(-1, 64), Ite(Eq(x, y), BVI(0, 64), BVI(1, 64)))
		}
		// different lengths: compare common prefix, then lengths
		n := min(a.Len, b.Len)
		if n == 0 {
			if a.Len < b.Len {
				return BVI(-1, 64)
			}
			return BVI(1, 64)
		}
		x := concatBytes(e.sliceElems(a)[:n])
		y := concatBytes(e.sliceElems(b)[:n])
		tail := BVI(1, 64)
		if a.Len < b.Len {
			tail = BVI(-1, 64)
		}
		return Ite(bvCmp("bvult", x, y), BVI(-1, 64), Ite(Eq(x, y), tail, BVI(1, 64)))
	}
	x, y := e.bytesTerm(a), e.bytesTerm(b)
	ox, oy := App("b.ord", IntSort, x), App("b.ord", IntSort, y)
	// b.ord is an order embedding: equal ranks ⇒ equal strings
	e.assertPC(Eq(Eq(ox, oy), Eq(x, y)))
	return Ite(ILt(ox, oy), BVI(-1, 64), Ite(Eq(x, y), BVI(0, 64), BVI(1, 64)))
}

// formatted strings: supports %s %x %X %d %v %q on scalars / byte slices; anything else is an opaque function
// of the (scalar) arguments
func (e *Exec) sprintf(format string, args []Value) *Term {
	out := StrLit("")
	ai := 0
	i := 0
	lit := strings.Builder{}
	flush := func() {
		if lit.Len() > 0 {
			out = strCat(out, StrLit(lit.String()))
			lit.Reset()
		}
	}
	for i < len(format) {
		c := format[i]
		if c != '%' {
			lit.WriteByte(c)
			i++
			continue
		}
		if i+1 < len(format) && format[i+1] == '%' {
			lit.WriteByte('%')
			i += 2
			continue
		}
		j := i + 1
		for j < len(format) && strings.ContainsRune("+-# 0123456789.", rune(format[j])) {
			j++
		}
		if j >= len(format) {
			break
		}
		verb := format[j]
		flags := format[i+1 : j]
		i = j + 1
		flush()
		if ai >= len(args) {
			out = strCat(out, StrLit("%!"+string(verb)+"(MISSING)"))
			continue
		}
		out = strCat(out, e.fmtArg(verb, flags, args[ai]))
		ai++
	}
	flush()
	return out
}

func (e *Exec) fmtArg(verb byte, flags string, v Value) *Term {
	if iv, ok := v.(IfaceV); ok {
		if iv.V == nil {
			return StrLit("<nil>")
		}
		return e.fmtArgT(verb, flags, iv.V, iv)
	}
	return e.fmtArgT(verb, flags, v, IfaceV{})
}

func (e *Exec) fmtArgT(verb byte, flags string, v Value, iv IfaceV) *Term {
	switch x := v.(type) {
	case *Term:
		switch x.S.K {
		case SUn:
			if x.S == StrSort {
				if verb == 's' || verb == 'v' {
					return x
				}
				if verb == 'x' {
					return strHex(bytesOfStrTerm(x))
				}
				return App("str.fmt."+string(verb), StrSort, x)
			}
		case SBV:
			if (verb == 'd' || verb == 'v') && flags == "" {
				signed := false
				if iv.T != nil {
					_, signed, _ = intInfo(iv.T)
				}
				if signed {
					return strInt(BV2Int(x))
				}
				return strU64(x)
			}
			return App("str.fmtbv."+string(verb)+fmt.Sprint(x.S.W), StrSort, x)
		case SInt:
			return strInt(x)
		case SBool:
			return App("str.bool", StrSort, x)
		}
	case *SliceV:
		if x.Op != nil || e.isByteSlice(x) {
			switch verb {
			case 'x':
				return strHex(e.bytesTerm(x))
			case 'X':
				return App("str.HEX", StrSort, e.bytesTerm(x))
			case 's':
				return e.stringOfBytes(x).(*Term)
			}
			return App("str.fmtb."+string(verb), StrSort, e.bytesTerm(x))
		}
		// slice of other things: render elements
		out := StrLit("[")
		for i, el := range e.sliceElems(x) {
			if i > 0 {
				out = strCat(out, StrLit(" "))
			}
			out = strCat(out, e.fmtArg(verb, flags, el))
		}
		return strCat(out, StrLit("]"))
	case *ArrayV:
		if len(x.E) > 0 {
			if t, ok := x.E[0].(*Term); ok && t.S == BV(8) {
				if verb == 'x' {
					return strHex(bytesOfBV(concatBytes(x.E)))
				}
				if verb == 'X' {
					return App("str.HEX", StrSort, bytesOfBV(concatBytes(x.E)))
				}
			}
		}
	case *ErrV:
		return x.Msg
	case IntV:
		if x.Nil {
			return StrLit("<nil>")
		}
		return strInt(x.T)
	case Ptr:
		// Stringer / error implemented on the pointed-to type?
		if iv.T != nil {
			if fn := e.methodOf(iv.T, "Error", nil); fn != nil {
				return e.callFn(fn, []Value{v})[0].(*Term)
			}
			if fn := e.methodOf(iv.T, "String", nil); fn != nil {
				return e.callFn(fn, []Value{v})[0].(*Term)
			}
		}
	case *StructV:
		if iv.T != nil {
			if fn := e.methodOf(iv.T, "String", nil); fn != nil {
				return e.callFn(fn, []Value{v})[0].(*Term)
			}
		}
	}
	// panic values and other things only rendered into diagnostics
	return StrLit("<" + fmt.Sprintf("%T", v) + ">")
}

func (e *Exec) isByteSlice(s *SliceV) bool {
	if s.Op != nil {
		return true
	}
	if s.Nil || s.Len == 0 {
		return true
	}
	t, ok := s.A.V.(*ArrayV).E[s.Off].(*Term)
	return ok && t.S == BV(8)
}

func variadic(e *Exec, v Value) []Value {
	s, ok := v.(*SliceV)
	if !ok || s.Op != nil {
		e.unsupported("variadic argument")
	}
	return e.sliceElems(s)
}

func errMsgOf(e *Exec, v Value) *Term {
	iv, ok := v.(IfaceV)
	if ok {
		if iv.V == nil {
			return StrLit("<nil>")
		}
		v = iv.V
	}
	if ev, ok := v.(*ErrV); ok {
		return ev.Msg
	}
	return StrLit("<error>")
}

func rootOf(v Value) string {
	if iv, ok := v.(IfaceV); ok {
		v = iv.V
	}
	if ev, ok := v.(*ErrV); ok {
		return ev.Root
	}
	return ""
}

func init() {
	models["golang.org/x/crypto/sha3.Sum256"] = func(e *Exec, a []Value) []Value {
		return []Value{arrayOfBV(e.sum256(asSlice(e, a[0])))}
	}
	models["bytes.Equal"] = func(e *Exec, a []Value) []Value {
		return []Value{e.bytesEqual(asSlice(e, a[0]), asSlice(e, a[1]))}
	}
	models["bytes.Compare"] = func(e *Exec, a []Value) []Value {
		return []Value{e.bytesCompare(asSlice(e, a[0]), asSlice(e, a[1]))}
	}
	models["(encoding/binary.bigEndian).AppendUint64"] = func(e *Exec, a []Value) []Value {
		v := asTerm(e, a[2])
		return []Value{e.appendOp(a[1], e.sliceOfBV(v, "be64"), nil)}
	}
	models["(encoding/binary.bigEndian).PutUint64"] = func(e *Exec, a []Value) []Value {
		dst := asSlice(e, a[1])
		v := asTerm(e, a[2])
		if dst.Op != nil {
			e.unsupported("PutUint64 into opaque bytes")
		}
		if dst.Len < 8 {
			e.goPanicStr("runtime error: index out of range [7]")
		}
		arr := dst.A.V.(*ArrayV)
		for i := 0; i < 8; i++ {
			arr.E[dst.Off+i] = Extract(v, 63-8*i, 56-8*i)
		}
		return nil
	}
	models["(encoding/binary.bigEndian).Uint64"] = func(e *Exec, a []Value) []Value {
		src := asSlice(e, a[1])
		if src.Op != nil {
			e.unsupported("Uint64 from opaque bytes")
		}
		if src.Len < 8 {
			e.goPanicStr("runtime error: index out of range [7]")
		}
		return []Value{concatBytes(e.sliceElems(src)[:8])}
	}
	models["encoding/hex.EncodeToString"] = func(e *Exec, a []Value) []Value {
		return []Value{strHex(e.bytesTerm(asSlice(e, a[0])))}
	}
	models["fmt.Sprintf"] = func(e *Exec, a []Value) []Value {
		f := asTerm(e, a[0])
		if !f.IsStrLit() {
			e.unsupported("Sprintf with symbolic format")
		}
		return []Value{e.sprintf(f.Str, variadic(e, a[1]))}
	}
	models["fmt.Sprint"] = func(e *Exec, a []Value) []Value {
		out := StrLit("")
		for _, v := range variadic(e, a[0]) {
			out = strCat(out, e.fmtArg('v', "", v))
		}
		return []Value{out}
	}
	models["fmt.Errorf"] = func(e *Exec, a []Value) []Value {
		f := asTerm(e, a[0])
		args := variadic(e, a[1])
		root := ""
		if f.IsStrLit() && strings.Contains(f.Str, "%w") {
			for _, v := range args {
				if r := rootOf(v); r != "" {
					root = r
				}
			}
		}
		msg := StrLit("error")
		if f.IsStrLit() {
			msg = e.sprintf(strings.ReplaceAll(f.Str, "%w", "%v"), args)
		}
		return []Value{errIface(root, msg)}
	}
	models["errors.New"] = func(e *Exec, a []Value) []Value {
		return []Value{errIface("", asTerm(e, a[0]))}
	}
	models["errors.Is"] = func(e *Exec, a []Value) []Value {
		x, y := a[0].(IfaceV), a[1].(IfaceV)
		if x.V == nil || y.V == nil {
			return []Value{BoolT(x.V == nil && y.V == nil)}
		}
		xe, ok1 := x.V.(*ErrV)
		ye, ok2 := y.V.(*ErrV)
		if !ok1 || !ok2 {
			e.unsupported("errors.Is on non-modelled error values")
		}
		return []Value{BoolT(xe == ye || (xe.Root != "" && xe.Root == ye.Root))}
	}
	models["cosmossdk.io/errors.IsOf"] = func(e *Exec, a []Value) []Value {
		x := a[0].(IfaceV)
		if x.V == nil {
			return []Value{False}
		}
		for _, t := range variadic(e, a[1]) {
			if rootOf(x) != "" && rootOf(x) == rootOf(t) {
				return []Value{True}
			}
		}
		return []Value{False}
	}
	wrap := func(e *Exec, errv Value, msg *Term) []Value {
		if iv, ok := errv.(IfaceV); ok {
			if iv.V == nil {
				return []Value{nilErr()}
			}
			errv = iv.V
		}
		ev, ok := errv.(*ErrV)
		if !ok {
			e.unsupported("wrap of non-modelled error")
		}
		return []Value{errIface(ev.Root, strCat(msg, strCat(StrLit(": "), ev.Msg)))}
	}
	models["(*cosmossdk.io/errors.Error).Wrap"] = func(e *Exec, a []Value) []Value {
		return wrap(e, a[0], asTerm(e, a[1]))
	}
	models["(*cosmossdk.io/errors.Error).Wrapf"] = func(e *Exec, a []Value) []Value {
		f := asTerm(e, a[1])
		return wrap(e, a[0], e.sprintf(f.Str, variadic(e, a[2])))
	}
	models["cosmossdk.io/errors.Wrap"] = func(e *Exec, a []Value) []Value {
		return wrap(e, a[0], asTerm(e, a[1]))
	}
	models["cosmossdk.io/errors.Wrapf"] = func(e *Exec, a []Value) []Value {
		f := asTerm(e, a[1])
		return wrap(e, a[0], e.sprintf(f.Str, variadic(e, a[2])))
	}
	models["(*cosmossdk.io/errors.Error).Error"] = func(e *Exec, a []Value) []Value {
		return []Value{a[0].(*ErrV).Msg}
	}
	models["error.Error"] = func(e *Exec, a []Value) []Value {
		return []Value{a[0].(*ErrV).Msg}
	}
	models["strconv.FormatUint"] = func(e *Exec, a []Value) []Value {
		base := asTerm(e, a[1])
		if !base.IsConst() || base.N.Int64() != 10 {
			e.unsupported("FormatUint base != 10")
		}
		return []Value{strU64(asTerm(e, a[0]))}
	}
	models["strconv.FormatInt"] = func(e *Exec, a []Value) []Value {
		return []Value{strInt(BV2Int(asTerm(e, a[0])))}
	}
	models["strconv.Itoa"] = models["strconv.FormatInt"]
	models["strconv.FormatBool"] = func(e *Exec, a []Value) []Value {
		b := asTerm(e, a[0])
		if b.IsConst() {
			if b.B {
				return []Value{StrLit("true")}
			}
			return []Value{StrLit("false")}
		}
		if e.decideBool(b) {
			return []Value{StrLit("true")}
		}
		return []Value{StrLit("false")}
	}
	models["github.com/cosmos/cosmos-sdk/types/address.Module"] = func(e *Exec, a []Value) []Value {
		name := asTerm(e, a[0])
		keys := variadic(e, a[1])
		if len(keys) == 0 {
			return []Value{&SliceV{Op: App("modaddr0", BytesSort, name)}}
		}
		seed := e.bytesTerm(asSlice(e, keys[0]))
		for _, k := range keys[1:] {
			seed = App("b.deriv", BytesSort, seed, e.bytesTerm(asSlice(e, k)))
		}
		return []Value{&SliceV{Op: App("modaddr", BytesSort, name, seed)}}
	}
	instanceAxioms["modaddr"] = func(t *Term) []*Term {
		// address derivation is idealised as injective in its seed; addresses are 32 bytes
		return []*Term{
			Eq(App("modaddr.seed", BytesSort, t), t.Args[1]),
			Eq(App("modaddr.name", StrSort, t), t.Args[0]),
			Eq(App("b.len", IntSort, t), IntI(32)),
			App("addr.isModuleDerived", BoolSort, t),
		}
	}
	models["strings.ToUpper"] = func(e *Exec, a []Value) []Value {
		s := asTerm(e, a[0])
		if s.IsStrLit() {
			return []Value{StrLit(strings.ToUpper(s.Str))}
		}
		return []Value{App("str.upper", StrSort, s)}
	}
	models["strings.HasPrefix"] = func(e *Exec, a []Value) []Value {
		s, p := asTerm(e, a[0]), asTerm(e, a[1])
		if s.IsStrLit() && p.IsStrLit() {
			return []Value{BoolT(strings.HasPrefix(s.Str, p.Str))}
		}
		if s.Op == "str.cat" && s.Args[0].IsStrLit() && p.IsStrLit() && len(s.Args[0].Str) >= len(p.Str) {
			return []Value{BoolT(strings.HasPrefix(s.Args[0].Str, p.Str))}
		}
		return []Value{App("str.hasprefix", BoolSort, s, p)}
	}
	models["(github.com/cometbft/cometbft/libs/bytes.HexBytes).Bytes"] = func(e *Exec, a []Value) []Value { return []Value{a[0]} }
	models["strings.ToLower"] = func(e *Exec, a []Value) []Value {
		s := asTerm(e, a[0])
		if s.IsStrLit() {
			return []Value{StrLit(strings.ToLower(s.Str))}
		}
		return []Value{App("str.lower", StrSort, s)}
	}
	models["strings.TrimSpace"] = func(e *Exec, a []Value) []Value {
		s := asTerm(e, a[0])
		if s.IsStrLit() {
			return []Value{StrLit(strings.TrimSpace(s.Str))}
		}
		return []Value{App("str.trim", StrSort, s)}
	}
	models["time.Now"] = func(e *Exec, a []Value) []Value {
		e.extra["clock.now"] = e.extra["clock.calls"]
		return []Value{e.symTimeOracle("oracle.time.Now")}
	}
	// the wall clock is a runtime oracle: the time elapsed since an earlier reading is an arbitrary non-negative
	// duration, independent in each execution of a self-composition (the symbols are named per execution so that
	// a replay can make that much time pass). Bound: the modelled clock advances across calls into other
	// components (stub message handlers) only; with no such call since the last time.Now less than 1 ms passes.
	models["time.Since"] = func(e *Exec, a []Value) []Value {
		d := e.fresh(fmt.Sprintf("oracle.time.Since.e%d", e.envMode), IntSort)
		e.assertPC(And(IGe(d, IntI(0)), ILt(d, IntI(1<<62))))
		if e.extra["clock.now"] == e.extra["clock.calls"] {
			e.assertPC(ILt(d, IntI(1000000)))
		}
		return []Value{d}
	}
	// stack traces carry goroutine ids, addresses and build paths: a runtime oracle, fresh at every call
	models["runtime/debug.Stack"] = func(e *Exec, a []Value) []Value {
		return []Value{&SliceV{Op: e.fresh("oracle.debug.Stack", BytesSort)}}
	}
	// telemetry is unobservable
	models["github.com/cosmos/cosmos-sdk/telemetry.ModuleMeasureSince"] = func(e *Exec, a []Value) []Value { return nil }
}

func init() {
	// idealised hash: inverse function (injectivity) + width tag (domain separation)
	// handled in axiomsFor via prefix, see below
	prev := axiomsForHook
	axiomsForHook = func(u *Term) []*Term {
		if strings.HasPrefix(u.Op, "IH") && len(u.Args) == 1 {
			inv := App(u.Op+".inv", u.Args[0].S, u)
			return []*Term{Eq(inv, u.Args[0]), Eq(App("IH.tag", StrSort, u), StrLit(u.Op))}
		}
		if prev != nil {
			return prev(u)
		}
		return nil
	}
}

var axiomsForHook func(u *Term) []*Term
