package main

import (
	"fmt"
	"go/constant"
	"go/token"
	"go/types"
	"sort"
	"strings"

	"golang.org/x/tools/go/ssa"
)

// ---------- path control ----------

type pathEnd struct {
	Status string // ok | assumed | infeasible | unsupported | unwind | steps
	Why    string
}

type goPanic struct {
	Val Value
	Str string
}

type deferred struct {
	fn   Value
	args []Value
}

type Frame struct {
	fn       *ssa.Function
	env      map[ssa.Value]Value
	defers   []deferred
	panicV   *goPanic
	running  bool // running defers
	loopHits map[*ssa.BasicBlock]int
	results  []Value
}

type AssertRec struct {
	Label   string            `json:"label"`
	Result  string            `json:"result"` // proved | trivial | violated | unknown
	Pos     string            `json:"pos,omitempty"`
	Model   map[string]string `json:"model,omitempty"`
	Path    []int             `json:"path,omitempty"`
	Harness string            `json:"harness,omitempty"`
	Cex     string            `json:"cex,omitempty"`
}

type PathResult struct {
	Harness   string
	Decisions []int
	Status    string
	Why       string
	Asserts   []AssertRec
	Reached   []string
	NewAlts   [][]int
	Unknowns  int
	Forks     int
	Funcs     map[string]bool
	Stubs     map[string]bool
	Steps     int
	KnownHit  []string
	Recovered []string
	ForkSites map[string]int
	Trace     []string
}

type Exec struct {
	W                       *World
	sol                     *Solver
	harness                 string
	prefix                  []int
	pos                     int
	decisions               []int
	res                     *PathResult
	pc                      []*Term
	globals                 map[*ssa.Global]*Obj
	symN                    map[string]int
	oracleN                 map[string]int
	envMode                 int // 0 off, 1 recording, 2 replaying (self-composition)
	envLog                  map[string]*Term
	envSymN, envAfter       map[string]int
	envExtra, envAfterExtra map[string]any
	syms                    []*Term // harness-visible symbols (for models)
	frames                  []*Frame
	steps                   int
	state                   *State
	cfg                     *HarnessCfg
	objN                    int
	u64memo                 map[string]*Term
	extra                   map[string]any
	inits                   []initRec
	symPtrs                 map[string]Ptr
	curModel                string
	knownAtoms              map[string]bool
}

func (e *Exec) end(status, why string) {
	panic(&pathEnd{Status: status, Why: why})
}

func (e *Exec) unsupported(what string) {
	e.end("unsupported", what)
}

func (e *Exec) goPanicStr(s string) {
	panic(&goPanic{Val: IfaceV{T: types.Typ[types.String], V: StrLit(s)}, Str: s})
}

func (e *Exec) assertPC(t *Term) {
	if t.IsTrue() {
		return
	}
	e.pc = append(e.pc, t)
	e.noteKnown(t)
	e.sol.Assert(t)
}

// noteKnown records asserted atoms so that a later branch on the very same condition needs no solver call
func (e *Exec) noteKnown(t *Term) {
	if e.knownAtoms == nil {
		e.knownAtoms = map[string]bool{}
	}
	switch {
	case t.Op == "and":
		for _, a := range t.Args {
			e.noteKnown(a)
		}
	case t.Op == "not":
		e.knownAtoms[t.Args[0].Key()] = false
	default:
		e.knownAtoms[t.Key()] = true
	}
}

func (e *Exec) simplifyKnown(t *Term) *Term {
	if t.IsConst() || e.knownAtoms == nil {
		return t
	}
	if v, ok := e.knownAtoms[t.Key()]; ok {
		return BoolT(v)
	}
	if t.Op == "not" {
		if v, ok := e.knownAtoms[t.Args[0].Key()]; ok {
			return BoolT(!v)
		}
	}
	return t
}

// decide picks one of mutually exclusive, jointly exhaustive alternatives; new feasible alternatives are
// queued as decision prefixes for later paths.
func (e *Exec) decide(alts []*Term) int {
	if e.knownAtoms != nil {
		orig := alts
		alts = make([]*Term, len(orig))
		for i, a := range orig {
			alts[i] = e.simplifyKnown(a)
		}
	}
	// literal shortcut
	nonFalse := -1
	cnt := 0
	for i, a := range alts {
		if a.IsTrue() {
			return i
		}
		if !a.IsFalse() {
			nonFalse = i
			cnt++
		}
	}
	if cnt == 0 {
		e.end("infeasible", "no alternative")
	}
	if cnt == 1 {
		// exhaustive alternatives: the only non-false one holds
		e.assertPC(alts[nonFalse])
		return nonFalse
	}
	if e.pos < len(e.prefix) {
		c := e.prefix[e.pos]
		e.pos++
		e.decisions = append(e.decisions, c)
		e.traceDecision(alts, c, nil)
		e.assertPC(alts[c])
		return c
	}
	var feas []int
	lastCand := -1
	for i, a := range alts {
		if !a.IsFalse() {
			lastCand = i
		}
	}
	for i, a := range alts {
		if a.IsFalse() {
			continue
		}
		if i == lastCand && len(feas) == 0 {
			feas = append(feas, i) // exhaustive ⇒ must be feasible
			break
		}
		r := e.sol.CheckBranch(a)
		if r == "unsat" {
			continue
		}
		if r != "sat" {
			e.res.Unknowns++
		}
		feas = append(feas, i)
	}
	if len(feas) == 0 {
		e.end("infeasible", "no feasible alternative")
	}
	c := feas[0]
	for _, o := range feas[1:] {
		alt := make([]int, len(e.decisions)+1)
		copy(alt, e.decisions)
		alt[len(e.decisions)] = o
		e.res.NewAlts = append(e.res.NewAlts, alt)
	}
	if len(feas) > 1 {
		e.res.Forks++
		site := e.curModel
		if site == "" && len(e.frames) > 0 {
			site = e.frames[len(e.frames)-1].fn.Name()
		}
		if e.res.ForkSites == nil {
			e.res.ForkSites = map[string]int{}
		}
		e.res.ForkSites[site]++
	}
	e.pos++
	e.decisions = append(e.decisions, c)
	e.traceDecision(alts, c, feas)
	e.assertPC(alts[c])
	return c
}

func (e *Exec) traceDecision(alts []*Term, c int, feas []int) {
	if !e.W.trace {
		return
	}
	s := alts[c].SMT()
	if len(s) > 160 {
		s = s[:160] + "..."
	}
	site := e.curModel
	if site == "" && len(e.frames) > 0 {
		site = e.frames[len(e.frames)-1].fn.Name()
	}
	e.res.Trace = append(e.res.Trace, fmt.Sprintf("#%d pick %d of %d feasible=%v @%s: %s", len(e.decisions)-1, c, len(alts), feas, site, s))
}

// branch on a boolean term
func (e *Exec) decideBool(c *Term) bool {
	if c.IsTrue() {
		return true
	}
	if c.IsFalse() {
		return false
	}
	return e.decide([]*Term{c, Not(c)}) == 0
}

// concretize a small-range integer term by forking over [0,n)
func (e *Exec) decideIndex(t *Term, n int) int {
	if t.IsConst() {
		if !t.N.IsInt64() || t.N.Int64() >= int64(n) {
			return -1
		}
		return int(t.N.Int64())
	}
	alts := make([]*Term, n+1)
	for i := 0; i < n; i++ {
		alts[i] = Eq(t, BVU(uint64(i), t.S.W))
	}
	var all []*Term
	for i := 0; i < n; i++ {
		all = append(all, Not(alts[i]))
	}
	alts[n] = And(all...)
	k := e.decide(alts)
	if k == n {
		return -1
	}
	return k
}

func (e *Exec) fresh(name string, s Sort) *Term {
	ctr := e.symN
	oracle := strings.HasPrefix(name, "oracle.")
	if oracle {
		// runtime oracles (map iteration order, wall clock, randomness) are never replayed: each use is a new symbol
		if e.oracleN == nil {
			e.oracleN = map[string]int{}
		}
		ctr = e.oracleN
	}
	ctr[name]++
	n := ctr[name]
	full := name
	if n > 1 {
		full = fmt.Sprintf("%s#%d", name, n)
	}
	if !oracle && e.envMode == 2 {
		if t, ok := e.envLog[full]; ok && t.S == s {
			return t // self-composition: the environment answers the second execution as it answered the first
		}
	}
	t := Sym(full, s)
	e.syms = append(e.syms, t)
	if !oracle && e.envMode != 0 {
		e.envLog[full] = t
	}
	return t
}

// envBegin/envReplay/envEnd bracket the two executions of a self-composition harness: symbols that stand for
// the (deterministic) environment — stub outcomes, decoded values, havocked state — are the same in both.
func (e *Exec) envBegin() {
	e.envMode, e.envLog = 1, map[string]*Term{}
	e.envSymN = map[string]int{}
	for k, v := range e.symN {
		e.envSymN[k] = v
	}
	e.envExtra = map[string]any{}
	for k, v := range e.extra {
		if strings.HasPrefix(k, "n:") {
			e.envExtra[k] = v
		}
	}
}

func (e *Exec) envReplay() {
	if e.envMode == 2 {
		e.envEnd()
		e.envMode = 1
	}
	if e.envMode != 1 {
		e.unsupported("verifEnvReplay without verifEnvBegin")
	}
	e.envMode = 2
	e.envAfter = e.symN
	e.symN = map[string]int{}
	for k, v := range e.envSymN {
		e.symN[k] = v
	}
	e.envAfterExtra = map[string]any{}
	for k, v := range e.extra {
		if strings.HasPrefix(k, "n:") {
			e.envAfterExtra[k] = v
			delete(e.extra, k)
		}
	}
	for k, v := range e.envExtra {
		e.extra[k] = v
	}
}

func (e *Exec) envEnd() {
	if e.envMode == 2 {
		for k, v := range e.envAfter {
			if e.symN[k] < v {
				e.symN[k] = v
			}
		}
		for k, v := range e.envAfterExtra {
			if cur, _ := e.extra[k].(int); cur < v.(int) {
				e.extra[k] = v
			}
		}
	}
	e.envMode = 0
}

func (e *Exec) newObj(v Value, name string) *Obj {
	e.objN++
	return &Obj{V: v, Name: fmt.Sprintf("%s@%d", name, e.objN)}
}

// ---------- function names / lookup ----------

func fnName(fn *ssa.Function) string {
	if o := fn.Origin(); o != nil {
		fn = o
	}
	return fn.String()
}

func (e *Exec) followed(fn *ssa.Function) bool {
	if fn.Pkg == nil {
		// synthetic wrappers / instantiations: judge by origin or the object package
		if o := fn.Origin(); o != nil && o.Pkg != nil {
			return e.W.followPkg(o.Pkg.Pkg.Path())
		}
		if fn.Object() != nil && fn.Object().Pkg() != nil {
			return e.W.followPkg(fn.Object().Pkg().Path())
		}
		return true
	}
	return e.W.followPkg(fn.Pkg.Pkg.Path())
}

// ---------- calls ----------

func (e *Exec) callFn(fn *ssa.Function, args []Value) []Value {
	name := fnName(fn)
	if m, ok := models[name]; ok {
		e.res.Stubs[name] = true
		prev := e.curModel
		e.curModel = "model:" + name
		defer func() { e.curModel = prev }()
		return m(e, args)
	}
	if strings.HasPrefix(fn.Name(), "verif") {
		iname := fn.Name()
		if i := strings.Index(iname, "["); i > 0 {
			iname = iname[:i]
		}
		if in, ok := intrinsics[iname]; ok {
			return in(e, fn, args)
		}
		if fn.Blocks == nil {
			e.unsupported("unknown intrinsic " + fn.Name())
		}
	}
	if fn.Blocks == nil {
		e.W.build(fn)
	}
	if fn.Blocks == nil {
		e.unsupported("no body and no model: " + name)
	}
	if fn.Synthetic == "" || fn.Pkg != nil {
		if !e.followed(fn) {
			e.unsupported("no model for external function: " + name)
		}
	}
	e.res.Funcs[name] = true
	if len(e.frames) > 400 {
		e.unsupported("call depth")
	}
	fr := &Frame{fn: fn, env: map[ssa.Value]Value{}, loopHits: map[*ssa.BasicBlock]int{}}
	for i, p := range fn.Params {
		if i < len(args) {
			fr.env[p] = args[i]
		}
	}
	return e.runFrame(fr, nil)
}

func (e *Exec) runFrame(fr *Frame, bind []Value) (ret []Value) {
	fn := fr.fn
	for i, fv := range fn.FreeVars {
		if i < len(bind) {
			fr.env[fv] = bind[i]
		}
	}
	e.frames = append(e.frames, fr)
	depth := len(e.frames)
	defer func() {
		if r := recover(); r != nil {
			gp, ok := r.(*goPanic)
			if !ok {
				panic(r)
			}
			e.frames = e.frames[:depth]
			fr.panicV = gp
			e.runDefers(fr)
			if fr.panicV != nil {
				e.frames = e.frames[:depth-1]
				panic(fr.panicV)
			}
			// recovered
			if fn.Recover != nil {
				ret = e.runBlocks(fr, fn.Recover)
			} else {
				sig := fn.Signature.Results()
				ret = make([]Value, sig.Len())
				for i := range ret {
					ret[i] = e.zero(sig.At(i).Type())
				}
			}
		}
		e.frames = e.frames[:depth-1]
	}()
	return e.runBlocks(fr, fn.Blocks[0])
}

func (e *Exec) runDefers(fr *Frame) {
	fr.running = true
	for len(fr.defers) > 0 {
		d := fr.defers[len(fr.defers)-1]
		fr.defers = fr.defers[:len(fr.defers)-1]
		e.callValue(d.fn, d.args)
	}
	fr.running = false
}

func (e *Exec) callValue(fv Value, args []Value) []Value {
	switch f := fv.(type) {
	case *FuncV:
		if f == nil {
			e.goPanicStr("runtime error: invalid memory address or nil pointer dereference (nil func)")
		}
		if f.Native != nil {
			return f.Native(e, args)
		}
		if len(f.Bind) > 0 {
			name := fnName(f.Fn)
			e.res.Funcs[name] = true
			if f.Fn.Blocks == nil {
				e.W.build(f.Fn)
			}
			fr := &Frame{fn: f.Fn, env: map[ssa.Value]Value{}, loopHits: map[*ssa.BasicBlock]int{}}
			for i, p := range f.Fn.Params {
				fr.env[p] = args[i]
			}
			return e.runFrame(fr, f.Bind)
		}
		return e.callFn(f.Fn, args)
	}
	e.unsupported(fmt.Sprintf("call of %T", fv))
	return nil
}

func (e *Exec) wrapResults(rs []Value) Value {
	switch len(rs) {
	case 0:
		return nil
	case 1:
		return rs[0]
	}
	return TupleV(rs)
}

// method lookup on a dynamic type
func (e *Exec) methodOf(t types.Type, name string, pkg *types.Package) *ssa.Function {
	ms := e.W.prog.MethodSets.MethodSet(t)
	for i := 0; i < ms.Len(); i++ {
		sel := ms.At(i)
		if sel.Obj().Name() == name && (sel.Obj().Exported() || sel.Obj().Pkg() == pkg) {
			e.W.mu.Lock()
			fn := e.W.prog.MethodValue(sel)
			e.W.mu.Unlock()
			return fn
		}
	}
	return nil
}

func (e *Exec) invoke(recv Value, m *types.Func, args []Value) []Value {
	iv, ok := recv.(IfaceV)
	if !ok {
		e.unsupported(fmt.Sprintf("invoke on %T", recv))
	}
	if iv.V == nil {
		e.goPanicStr("runtime error: invalid memory address or nil pointer dereference (nil interface)")
	}
	// model values first
	if name := modelKind(iv.V); name != "" {
		key := name + "." + m.Name()
		if mf, ok := models[key]; ok {
			e.res.Stubs[key] = true
			return mf(e, append([]Value{iv.V}, args...))
		}
		if iv.T == nil {
			e.unsupported("no model for " + key)
		}
	}
	if iv.T != nil {
		fn := e.methodOf(iv.T, m.Name(), m.Pkg())
		if fn != nil {
			return e.callFn(fn, append([]Value{iv.V}, args...))
		}
	}
	e.unsupported("invoke: no method " + m.Name() + " on " + describe(iv.V))
	return nil
}

func modelKind(v Value) string {
	switch x := v.(type) {
	case *ModelObj:
		return x.Kind
	case *ErrV:
		return "error"
	case *CtxV:
		return "ctx"
	case *EventMgr:
		return "eventmgr"
	case IntV:
		return "Int"
	case TimeV:
		return "Time"
	}
	return ""
}

// ---------- block execution ----------

func (e *Exec) get(fr *Frame, v ssa.Value) Value {
	switch x := v.(type) {
	case *ssa.Const:
		return e.constValue(x)
	case *ssa.Global:
		return Ptr{O: e.global(x)}
	case *ssa.Function:
		return &FuncV{Fn: x}
	case *ssa.Builtin:
		return &FuncV{Name: x.Name(), Native: nil}
	}
	val, ok := fr.env[v]
	if !ok {
		e.unsupported(fmt.Sprintf("unbound SSA value %s in %s", v.Name(), fr.fn))
	}
	return val
}

func (e *Exec) runBlocks(fr *Frame, b *ssa.BasicBlock) []Value {
	var prev *ssa.BasicBlock
	mergedInto := false
	for {
		// phis first (parallel assignment)
		var phiVals []Value
		var phis []*ssa.Phi
		for _, ins := range b.Instrs {
			p, ok := ins.(*ssa.Phi)
			if !ok {
				break
			}
			if mergedInto {
				phis = append(phis, p)
				phiVals = append(phiVals, fr.env[p])
				continue
			}
			idx := -1
			for i, pb := range b.Preds {
				if pb == prev {
					idx = i
					break
				}
			}
			if idx < 0 {
				e.unsupported("phi without predecessor")
			}
			phis = append(phis, p)
			phiVals = append(phiVals, e.get(fr, p.Edges[idx]))
		}
		for i, p := range phis {
			fr.env[p] = phiVals[i]
		}
		mergedInto = false
		var next *ssa.BasicBlock
		for _, ins := range b.Instrs[len(phis):] {
			e.steps++
			if e.steps > e.W.maxSteps {
				e.end("steps", "step limit")
			}
			switch x := ins.(type) {
			case *ssa.If:
				c := e.get(fr, x.Cond).(*Term)
				sym := !c.IsConst()
				if sym {
					if j := e.tryMerge(fr, b, c); j != nil {
						next = j
						mergedInto = true
						break
					}
				}
				if e.decideBool(c) {
					next = b.Succs[0]
				} else {
					next = b.Succs[1]
				}
				if sym {
					fr.loopHits[next]++
					if fr.loopHits[next] > e.cfg.Unwind {
						e.end("unwind", fmt.Sprintf("loop in %s (block %d, %s) taken more than %d times", fr.fn.String(), next.Index, e.W.prog.Fset.Position(fr.fn.Pos()), e.cfg.Unwind))
					}
				}
			case *ssa.Jump:
				next = b.Succs[0]
			case *ssa.Return:
				rs := make([]Value, len(x.Results))
				for i, r := range x.Results {
					rs[i] = e.get(fr, r)
				}
				return rs
			case *ssa.Panic:
				v := e.get(fr, x.X)
				panic(&goPanic{Val: v, Str: describe(v)})
			default:
				e.exec(fr, ins)
			}
		}
		if next == nil {
			e.unsupported("block without terminator")
		}
		prev, b = b, next
	}
}

// tryMerge: if-conversion of the short-circuit shapes (a && b, a || b in value context): one successor is
// the join block, the other is a side-effect-free block that only jumps to the join. Both are evaluated
// and the join's phis become if-then-else terms, instead of forking the path.
func (e *Exec) tryMerge(fr *Frame, b *ssa.BasicBlock, c *Term) *ssa.BasicBlock {
	if e.W.noMerge {
		return nil
	}
	t, f := b.Succs[0], b.Succs[1]
	var side, join *ssa.BasicBlock
	sideOnTrue := false
	isSide := func(s, j *ssa.BasicBlock) bool {
		if len(s.Preds) != 1 || len(s.Instrs) == 0 || len(s.Instrs) > 12 {
			return false
		}
		jmp, ok := s.Instrs[len(s.Instrs)-1].(*ssa.Jump)
		if !ok || jmp.Block().Succs[0] != j {
			return false
		}
		if len(j.Instrs) == 0 {
			return false
		}
		if _, ok := j.Instrs[0].(*ssa.Phi); !ok {
			return false
		}
		for _, ins := range s.Instrs[:len(s.Instrs)-1] {
			if !e.pureInstr(fr, ins) {
				return false
			}
		}
		return true
	}
	switch {
	case isSide(t, f):
		side, join, sideOnTrue = t, f, true
	case isSide(f, t):
		side, join, sideOnTrue = f, t, false
	default:
		return nil
	}
	// operands of the side block must already be bound (they are: SSA dominance) — run it
	for _, ins := range side.Instrs[:len(side.Instrs)-1] {
		e.exec(fr, ins)
	}
	ib, is := -1, -1
	for i, p := range join.Preds {
		if p == b {
			ib = i
		}
		if p == side {
			is = i
		}
	}
	if ib < 0 || is < 0 {
		return nil
	}
	type pv struct {
		p *ssa.Phi
		v Value
	}
	var out []pv
	for _, ins := range join.Instrs {
		p, ok := ins.(*ssa.Phi)
		if !ok {
			break
		}
		vb, vs := e.get(fr, p.Edges[ib]), e.get(fr, p.Edges[is])
		tb, ok1 := vb.(*Term)
		ts, ok2 := vs.(*Term)
		if !ok1 || !ok2 || tb.S != ts.S || tb.S.K != SBool {
			return nil // only boolean joins (&&, ||) are merged: other values stay concrete per path
		}
		if sideOnTrue {
			out = append(out, pv{p, Ite(c, ts, tb)})
		} else {
			out = append(out, pv{p, Ite(c, tb, ts)})
		}
	}
	for _, x := range out {
		fr.env[x.p] = x.v
	}
	return join
}

// pureInstr: cannot fork, panic, or touch anything but its own SSA value
func (e *Exec) pureInstr(fr *Frame, ins ssa.Instruction) bool {
	switch x := ins.(type) {
	case *ssa.DebugRef:
		return true
	case *ssa.BinOp:
		if x.Op == token.QUO || x.Op == token.REM {
			return false
		}
		// operands must be scalars (struct/interface comparisons may need unsupported paths)
		return isScalarType(x.X.Type()) && isScalarType(x.Y.Type())
	case *ssa.UnOp:
		if x.Op == token.MUL || x.Op == token.ARROW {
			return false
		}
		return isScalarType(x.X.Type())
	case *ssa.Convert:
		return isScalarNumeric(x.X.Type()) && isScalarNumeric(x.Type())
	case *ssa.ChangeType:
		return isScalarType(x.X.Type())
	}
	return false
}

func isScalarNumeric(t types.Type) bool {
	if typeKey(t) == "time.Duration" {
		return false
	}
	_, _, ok := intInfo(t)
	return ok
}

func isScalarType(t types.Type) bool {
	if _, _, ok := intInfo(t); ok {
		return true
	}
	return isBool(t) || isString(t)
}

func (e *Exec) exec(fr *Frame, ins ssa.Instruction) {
	switch x := ins.(type) {
	case *ssa.DebugRef:
	case *ssa.Alloc:
		t := x.Type().(*types.Pointer).Elem()
		o := e.newObj(e.zero(t), x.Comment)
		fr.env[x] = Ptr{O: o}
	case *ssa.Store:
		p, ok := e.get(fr, x.Addr).(Ptr)
		if !ok {
			e.unsupported(fmt.Sprintf("store through %T", e.get(fr, x.Addr)))
		}
		e.store(p, e.get(fr, x.Val))
	case *ssa.UnOp:
		fr.env[x] = e.unop(fr, x)
	case *ssa.BinOp:
		fr.env[x] = e.binop(x.Op, e.get(fr, x.X), e.get(fr, x.Y), x.X.Type())
	case *ssa.Call:
		fr.env[x] = e.wrapResults(e.doCall(fr, &x.Call))
	case *ssa.Defer:
		fv, args := e.prepCall(fr, &x.Call)
		fr.defers = append(fr.defers, deferred{fv, args})
	case *ssa.RunDefers:
		e.runDefers(fr)
	case *ssa.Go:
		e.unsupported("go statement")
	case *ssa.Extract:
		fr.env[x] = e.get(fr, x.Tuple).(TupleV)[x.Index]
	case *ssa.Field:
		sv, ok := e.get(fr, x.X).(*StructV)
		if !ok {
			fr.env[x] = e.modelField(e.get(fr, x.X), x.X.Type(), x.Field)
		} else {
			fr.env[x] = sv.F[x.Field]
		}
	case *ssa.FieldAddr:
		pv := e.get(fr, x.X)
		p, ok := pv.(Ptr)
		if !ok {
			e.unsupported(fmt.Sprintf("FieldAddr on %T (%s)", pv, x.X.Type()))
		}
		if p.O == nil {
			e.goPanicStr("runtime error: invalid memory address or nil pointer dereference")
		}
		fr.env[x] = p.sub(x.Field)
	case *ssa.IndexAddr:
		fr.env[x] = e.indexAddr(fr, x)
	case *ssa.Index:
		fr.env[x] = e.index(fr, x)
	case *ssa.Slice:
		fr.env[x] = e.sliceOp(fr, x)
	case *ssa.MakeSlice:
		n := e.get(fr, x.Len).(*Term)
		c := e.get(fr, x.Cap).(*Term)
		if n.IsConst() && !c.IsConst() {
			// symbolic capacity hint: contents and length do not depend on it (growth reallocates)
			c = n
		}
		if !n.IsConst() || !c.IsConst() {
			e.unsupported("make slice with symbolic size")
		}
		et := x.Type().Underlying().(*types.Slice).Elem()
		ln, cp := int(n.N.Int64()), int(c.N.Int64())
		if ln > 1<<16 || cp > 1<<16 {
			e.unsupported("make slice too large")
		}
		arr := &ArrayV{E: make([]Value, cp)}
		for i := range arr.E {
			arr.E[i] = e.zero(et)
		}
		fr.env[x] = &SliceV{A: e.newObj(arr, "makeslice"), Off: 0, Len: ln, Cap: cp}
	case *ssa.MakeMap:
		mt := x.Type().Underlying().(*types.Map)
		fr.env[x] = &MapV{M: &MapObj{KT: mt.Key(), VT: mt.Elem()}}
	case *ssa.MapUpdate:
		e.mapUpdate(e.get(fr, x.Map), e.get(fr, x.Key), e.get(fr, x.Value))
	case *ssa.Lookup:
		fr.env[x] = e.lookup(fr, x)
	case *ssa.MakeInterface:
		v := e.get(fr, x.X)
		if iv, ok := v.(IfaceV); ok {
			fr.env[x] = iv
		} else {
			fr.env[x] = IfaceV{T: x.X.Type(), V: v}
		}
	case *ssa.ChangeInterface:
		fr.env[x] = e.get(fr, x.X)
	case *ssa.ChangeType:
		fr.env[x] = e.changeType(e.get(fr, x.X), x.X.Type(), x.Type())
	case *ssa.Convert:
		fr.env[x] = e.convert(e.get(fr, x.X), x.X.Type(), x.Type())
	case *ssa.MultiConvert:
		fr.env[x] = e.convert(e.get(fr, x.X), x.X.Type(), x.Type())
	case *ssa.TypeAssert:
		fr.env[x] = e.typeAssert(fr, x)
	case *ssa.MakeClosure:
		bind := make([]Value, len(x.Bindings))
		for i, b := range x.Bindings {
			bind[i] = e.get(fr, b)
		}
		fr.env[x] = &FuncV{Fn: x.Fn.(*ssa.Function), Bind: bind}
	case *ssa.Range:
		fr.env[x] = e.makeRange(e.get(fr, x.X), x.X.Type())
	case *ssa.Next:
		fr.env[x] = e.rangeNext(e.get(fr, x.Iter).(*rangeIter), x)
	case *ssa.SliceToArrayPointer:
		s := e.get(fr, x.X).(*SliceV)
		if s.Op != nil {
			e.unsupported("slice-to-array-pointer on opaque bytes")
		}
		n := int(x.Type().(*types.Pointer).Elem().Underlying().(*types.Array).Len())
		if s.Len < n {
			e.goPanicStr("runtime error: cannot convert slice to array pointer: length too short")
		}
		if s.Off != 0 {
			// view: copy semantics are not exact, but arrays obtained this way are only read in the code we follow
			arr := &ArrayV{E: make([]Value, n)}
			src := s.A.V.(*ArrayV)
			for i := 0; i < n; i++ {
				arr.E[i] = src.E[s.Off+i]
			}
			fr.env[x] = Ptr{O: e.newObj(arr, "s2a")}
		} else {
			fr.env[x] = Ptr{O: s.A}
		}
	case *ssa.Select, *ssa.Send, *ssa.MakeChan:
		e.unsupported("channel operation")
	default:
		e.unsupported(fmt.Sprintf("instruction %T", ins))
	}
}

func (e *Exec) prepCall(fr *Frame, c *ssa.CallCommon) (Value, []Value) {
	args := make([]Value, 0, len(c.Args)+1)
	if c.IsInvoke() {
		recv := e.get(fr, c.Value)
		for _, a := range c.Args {
			args = append(args, e.get(fr, a))
		}
		m := c.Method
		return &FuncV{Name: "invoke:" + m.Name(), Native: func(e *Exec, as []Value) []Value {
			return e.invoke(recv, m, as)
		}}, args
	}
	for _, a := range c.Args {
		args = append(args, e.get(fr, a))
	}
	if b, ok := c.Value.(*ssa.Builtin); ok {
		name := b.Name()
		var argTypes []types.Type
		for _, a := range c.Args {
			argTypes = append(argTypes, a.Type())
		}
		return &FuncV{Name: name, Native: func(e *Exec, as []Value) []Value {
			return e.builtin(name, as, argTypes)
		}}, args
	}
	return e.get(fr, c.Value), args
}

func (e *Exec) doCall(fr *Frame, c *ssa.CallCommon) []Value {
	fv, args := e.prepCall(fr, c)
	return e.callValue(fv, args)
}

// ---------- globals ----------

func (e *Exec) global(g *ssa.Global) *Obj {
	if o, ok := e.globals[g]; ok {
		return o
	}
	t := g.Type().(*types.Pointer).Elem()
	name := g.Pkg.Pkg.Path() + "." + g.Name()
	var v Value
	if gm, ok := globalModels[name]; ok {
		v = gm(e)
	} else if tk := typeKey(t); tk == "*cosmossdk.io/errors.Error" {
		v = &ErrV{Root: name, Msg: StrLit(name)}
	} else if tk == "error" {
		v = IfaceV{V: &ErrV{Root: name, Msg: StrLit(name)}}
	} else if _, isMap := t.Underlying().(*types.Map); isMap && (strings.HasSuffix(g.Name(), "_name") || strings.HasSuffix(g.Name(), "_value")) {
		v = &ModelObj{Kind: "enummap", Name: g.Name()}
	} else if strings.Contains(e.W.prog.Fset.Position(g.Pos()).Filename, "zz_verif_") {
		v = e.zero(t) // harness-declared package variable (no initialiser expected)
	} else if st, ok := t.Underlying().(*types.Struct); ok && st.NumFields() == 0 {
		v = e.zero(t)
	} else {
		e.unsupported("read of package variable without model: " + name)
	}
	o := &Obj{V: v, Name: name}
	e.globals[g] = o
	return o
}

// ---------- operators ----------

func (e *Exec) unop(fr *Frame, x *ssa.UnOp) Value {
	v := e.get(fr, x.X)
	switch x.Op {
	case token.MUL:
		p, ok := v.(Ptr)
		if !ok {
			e.unsupported(fmt.Sprintf("load through %T", v))
		}
		return e.load(p)
	case token.NOT:
		return Not(v.(*Term))
	case token.SUB:
		t := v.(*Term)
		if t.S.K == SInt {
			return e.wrapInt(INeg(t), x.Type())
		}
		return BVNeg(t)
	case token.XOR:
		return BVNot(v.(*Term))
	}
	e.unsupported("unop " + x.Op.String())
	return nil
}

func (e *Exec) wrapInt(t *Term, typ types.Type) *Term {
	if typeKey(typ) == "time.Duration" || t.IsConst() {
		// durations: int64 wrap
	}
	w, signed, ok := intInfo(typ)
	if !ok {
		return t
	}
	if t.IsConst() {
		m := pow2(w)
		r := new(bigInt).Mod(t.N, m)
		if signed && r.Cmp(pow2(w-1)) >= 0 {
			r.Sub(r, m)
		}
		return IntConst(r)
	}
	two := IntConst(pow2(w))
	if signed {
		maxv := IntConst(new(bigInt).Sub(pow2(w-1), big1))
		minv := IntConst(new(bigInt).Neg(pow2(w - 1)))
		return Ite(IGt(t, maxv), ISub(t, two), Ite(ILt(t, minv), IAdd(t, two), t))
	}
	maxv := IntConst(new(bigInt).Sub(pow2(w), big1))
	return Ite(IGt(t, maxv), ISub(t, two), Ite(ILt(t, IntI(0)), IAdd(t, two), t))
}

// toInt converts a BV-sorted scalar of Go type typ to an Int-sorted term
func toInt(t *Term, typ types.Type) *Term {
	if t.S.K == SInt {
		return t
	}
	_, signed, _ := intInfo(typ)
	if signed {
		return BV2Int(t)
	}
	return BV2Nat(t)
}

func (e *Exec) binop(op token.Token, a, b Value, typ types.Type) Value {
	switch x := a.(type) {
	case *Term:
		y, ok := b.(*Term)
		if !ok {
			e.unsupported(fmt.Sprintf("binop %s on term and %T", op, b))
		}
		return e.binopTerm(op, x, y, typ)
	}
	switch op {
	case token.EQL:
		return e.eqValue(a, b)
	case token.NEQ:
		return Not(e.eqValue(a, b))
	}
	e.unsupported(fmt.Sprintf("binop %s on %T", op, a))
	return nil
}

func (e *Exec) binopTerm(op token.Token, x, y *Term, typ types.Type) Value {
	if x.S.K == SUn && x.S.Name == "Str" {
		switch op {
		case token.ADD:
			return strCat(x, y)
		case token.EQL:
			return strEq(x, y)
		case token.NEQ:
			return Not(strEq(x, y))
		case token.LSS, token.LEQ, token.GTR, token.GEQ:
			if x.IsStrLit() && y.IsStrLit() {
				c := strings.Compare(x.Str, y.Str)
				switch op {
				case token.LSS:
					return BoolT(c < 0)
				case token.LEQ:
					return BoolT(c <= 0)
				case token.GTR:
					return BoolT(c > 0)
				default:
					return BoolT(c >= 0)
				}
			}
			e.assertPC(Eq(Eq(App("str.ord", IntSort, x), App("str.ord", IntSort, y)), strEq(x, y)))
			lt := ILt(App("str.ord", IntSort, x), App("str.ord", IntSort, y))
			gt := ILt(App("str.ord", IntSort, y), App("str.ord", IntSort, x))
			switch op {
			case token.LSS:
				return lt
			case token.LEQ:
				return Not(gt)
			case token.GTR:
				return gt
			default:
				return Not(lt)
			}
		}
		e.unsupported("string op " + op.String())
	}
	if x.S.K == SBool {
		switch op {
		case token.EQL:
			return Eq(x, y)
		case token.NEQ:
			return Not(Eq(x, y))
		case token.AND:
			return And(x, y)
		case token.OR:
			return Or(x, y)
		case token.XOR:
			return Not(Eq(x, y))
		}
		e.unsupported("bool op " + op.String())
	}
	if x.S.K == SUn {
		switch op {
		case token.EQL:
			return Eq(x, y)
		case token.NEQ:
			return Not(Eq(x, y))
		}
		e.unsupported("op on uninterpreted value " + op.String())
	}
	// numeric
	if x.S.K == SInt || y.S.K == SInt {
		xi, yi := toInt(x, typ), toInt(y, typ)
		switch op {
		case token.ADD:
			return e.wrapInt(IAdd(xi, yi), typ)
		case token.SUB:
			return e.wrapInt(ISub(xi, yi), typ)
		case token.MUL:
			return e.wrapInt(IMul(xi, yi), typ)
		case token.QUO:
			// Go truncates toward zero
			if e.decideBool(Eq(yi, IntI(0))) {
				e.goPanicStr("runtime error: integer divide by zero")
			}
			return goQuo(xi, yi)
		case token.REM:
			if e.decideBool(Eq(yi, IntI(0))) {
				e.goPanicStr("runtime error: integer divide by zero")
			}
			return ISub(xi, IMul(goQuo(xi, yi), yi))
		case token.EQL:
			return Eq(xi, yi)
		case token.NEQ:
			return Not(Eq(xi, yi))
		case token.LSS:
			return ILt(xi, yi)
		case token.LEQ:
			return ILe(xi, yi)
		case token.GTR:
			return IGt(xi, yi)
		case token.GEQ:
			return IGe(xi, yi)
		}
		e.unsupported("int-shadow op " + op.String())
	}
	_, signed, _ := intInfo(typ)
	switch op {
	case token.ADD:
		return bvBin("bvadd", x, y)
	case token.SUB:
		return bvBin("bvsub", x, y)
	case token.MUL:
		return bvBin("bvmul", x, y)
	case token.QUO, token.REM:
		if e.decideBool(Eq(y, BVU(0, y.S.W))) {
			e.goPanicStr("runtime error: integer divide by zero")
		}
		if op == token.QUO {
			if signed {
				return bvBin("bvsdiv", x, y)
			}
			return bvBin("bvudiv", x, y)
		}
		if signed {
			return bvBin("bvsrem", x, y)
		}
		return bvBin("bvurem", x, y)
	case token.AND:
		return bvBin("bvand", x, y)
	case token.OR:
		return bvBin("bvor", x, y)
	case token.XOR:
		return bvBin("bvxor", x, y)
	case token.AND_NOT:
		return bvBin("bvand", x, BVNot(y))
	case token.SHL, token.SHR:
		// shift count may have a different width
		yy := y
		if yy.S.W < x.S.W {
			yy = ZeroExt(yy, x.S.W)
		} else if yy.S.W > x.S.W {
			if yy.IsConst() {
				if yy.N.Cmp(pow2(x.S.W)) >= 0 {
					yy = BVU(uint64(x.S.W), x.S.W)
				} else {
					yy = BVConst(yy.N, x.S.W)
				}
			} else {
				big := bvCmp("bvuge", yy, BVU(uint64(x.S.W), yy.S.W))
				yy = Ite(big, BVU(uint64(x.S.W), x.S.W), Extract(yy, x.S.W-1, 0))
			}
		}
		if op == token.SHL {
			return bvBin("bvshl", x, yy)
		}
		if signed {
			return bvBin("bvashr", x, yy)
		}
		return bvBin("bvlshr", x, yy)
	case token.EQL:
		return Eq(x, y)
	case token.NEQ:
		return Not(Eq(x, y))
	case token.LSS:
		if signed {
			return bvCmp("bvslt", x, y)
		}
		return bvCmp("bvult", x, y)
	case token.LEQ:
		if signed {
			return bvCmp("bvsle", x, y)
		}
		return bvCmp("bvule", x, y)
	case token.GTR:
		if signed {
			return bvCmp("bvsgt", x, y)
		}
		return bvCmp("bvugt", x, y)
	case token.GEQ:
		if signed {
			return bvCmp("bvsge", x, y)
		}
		return bvCmp("bvuge", x, y)
	}
	e.unsupported("binop " + op.String())
	return nil
}

// Go's truncated division on Ints, expressed with SMT div (euclidean)
func goQuo(x, y *Term) *Term {
	if x.IsConst() && y.IsConst() && y.N.Sign() != 0 {
		return IntConst(new(bigInt).Quo(x.N, y.N))
	}
	// trunc(x/y) = sign * (|x| div |y|)
	ax := Ite(ILt(x, IntI(0)), INeg(x), x)
	ay := Ite(ILt(y, IntI(0)), INeg(y), y)
	q := IDiv(ax, ay)
	neg := Not(Eq(ILt(x, IntI(0)), ILt(y, IntI(0))))
	return Ite(neg, INeg(q), q)
}

// eqValue: Go == on non-scalar values
func (e *Exec) eqValue(a, b Value) *Term {
	switch x := a.(type) {
	case *Term:
		y, ok := b.(*Term)
		if !ok {
			return False
		}
		if x.S == StrSort {
			return strEq(x, y)
		}
		if x.S != y.S {
			if x.S.K == SInt && y.S.K == SBV {
				return Eq(x, BV2Int(y))
			}
			if y.S.K == SInt && x.S.K == SBV {
				return Eq(BV2Int(x), y)
			}
			return False
		}
		return Eq(x, y)
	case Ptr:
		y, ok := b.(Ptr)
		if !ok {
			if b == nil {
				return BoolT(x.O == nil)
			}
			if iv, isInt := b.(IntV); isInt && x.O == nil {
				return BoolT(iv.Nil)
			}
			return False
		}
		if x.O != y.O || len(x.Path) != len(y.Path) {
			return False
		}
		for i := range x.Path {
			if x.Path[i] != y.Path[i] {
				return False
			}
		}
		return True
	case *StructV:
		y, ok := b.(*StructV)
		if !ok || len(x.F) != len(y.F) {
			return False
		}
		var cs []*Term
		for i := range x.F {
			cs = append(cs, e.eqValue(x.F[i], y.F[i]))
		}
		return And(cs...)
	case *ArrayV:
		y, ok := b.(*ArrayV)
		if !ok || len(x.E) != len(y.E) {
			return False
		}
		return e.eqElems(x.E, y.E)
	case IfaceV:
		y, ok := b.(IfaceV)
		if !ok {
			return False
		}
		if x.V == nil || y.V == nil {
			return BoolT(x.V == nil && y.V == nil)
		}
		if x.T != nil && y.T != nil && !types.Identical(x.T, y.T) {
			return False
		}
		return e.eqValue(x.V, y.V)
	case *SliceV:
		y, ok := b.(*SliceV)
		if !ok {
			return False
		}
		// only comparison with nil is legal in Go
		if y.Nil && y.Op == nil {
			return e.sliceIsNil(x)
		}
		if x.Nil && x.Op == nil {
			return e.sliceIsNil(y)
		}
		e.unsupported("slice comparison")
	case *MapV:
		y, ok := b.(*MapV)
		if ok && (x.M == nil || y.M == nil) {
			return BoolT(x.M == nil && y.M == nil)
		}
	case *FuncV:
		y, ok := b.(*FuncV)
		if ok && (x == nil || y == nil) {
			return BoolT(x == nil && y == nil)
		}
	case DecV:
		y, ok := b.(DecV)
		if ok {
			if x.Nil || y.Nil {
				return BoolT(x.Nil && y.Nil)
			}
			return Eq(x.T, y.T)
		}
	case IntV:
		y, ok := b.(IntV)
		if ok {
			if x.Nil || y.Nil {
				return BoolT(x.Nil && y.Nil)
			}
			return Eq(x.T, y.T)
		}
		if p, isPtr := b.(Ptr); isPtr && p.O == nil {
			return BoolT(x.Nil) // a *big.Int value compared with nil
		}
	case TimeV:
		y, ok := b.(TimeV)
		if ok {
			return And(Eq(x.Sec, y.Sec), Eq(x.Nsec, y.Nsec))
		}
	case *ErrV:
		y, ok := b.(*ErrV)
		if ok {
			return BoolT(x == y || (x.Root != "" && x.Root == y.Root && sameTerm(x.Msg, y.Msg)))
		}
		return False
	case *ModelObj:
		y, ok := b.(*ModelObj)
		if ok {
			if x == y {
				return True
			}
			if t1, ok1 := x.F["term"].(*Term); ok1 {
				if t2, ok2 := y.F["term"].(*Term); ok2 && t1.S == t2.S {
					return Eq(t1, t2)
				}
			}
			return False
		}
		return False
	case nil:
		return BoolT(b == nil)
	}
	e.unsupported(fmt.Sprintf("equality on %T / %T", a, b))
	return nil
}

func (e *Exec) sliceIsNil(s *SliceV) *Term {
	if s.Op != nil {
		return False // opaque byte strings stand for non-nil values
	}
	return BoolT(s.Nil)
}

func (e *Exec) eqElems(a, b []Value) *Term {
	// byte arrays: compare as one bit-vector
	if len(a) > 0 {
		if t, ok := a[0].(*Term); ok && t.S.K == SBV && t.S.W == 8 {
			return Eq(concatBytes(a), concatBytes(b))
		}
	}
	var cs []*Term
	for i := range a {
		cs = append(cs, e.eqValue(a[i], b[i]))
	}
	return And(cs...)
}

func concatBytes(vs []Value) *Term {
	ts := make([]*Term, len(vs))
	for i, v := range vs {
		ts[i] = v.(*Term)
	}
	return Concat(ts...)
}

// ---------- conversions ----------

func (e *Exec) changeType(v Value, from, to types.Type) Value {
	// named <-> underlying; Duration <-> int64 needs care
	if tt, ok := v.(*Term); ok {
		fk, tk := typeKey(from), typeKey(to)
		if fk == "time.Duration" && tk != "time.Duration" && tt.S.K == SInt {
			if tt.IsConst() {
				return BVConst(tt.N, 64)
			}
			return tt // keep as Int shadow of an int64
		}
		if tk == "time.Duration" && tt.S.K == SBV {
			return BV2Int(tt)
		}
	}
	if sv, ok := v.(*StructV); ok {
		return &StructV{T: to, F: sv.F}
	}
	return v
}

func (e *Exec) convert(v Value, from, to types.Type) Value {
	if tp, ok := to.(*types.TypeParam); ok {
		_ = tp
		e.unsupported("convert to type parameter")
	}
	switch x := v.(type) {
	case *Term:
		if x.S == StrSort {
			// string -> []byte / []rune
			if sl, ok := to.Underlying().(*types.Slice); ok {
				if b, ok := sl.Elem().Underlying().(*types.Basic); ok && b.Kind() == types.Uint8 {
					return e.bytesOfString(x)
				}
				e.unsupported("string to []rune")
			}
			if isString(to) {
				return x
			}
		}
		if x.S.K == SBV || x.S.K == SInt {
			if isString(to) {
				e.unsupported("integer to string conversion")
			}
			if isFloat(to) {
				return &ModelObj{Kind: "float"}
			}
			tw, _, ok := intInfo(to)
			if !ok {
				e.unsupported("convert int to " + to.String())
			}
			if typeKey(to) == "time.Duration" {
				return toInt(x, from)
			}
			if x.S.K == SInt {
				if x.IsConst() {
					return BVConst(x.N, tw)
				}
				// Int shadow → BV: fresh link (range must hold for the source type)
				return e.intToBV(x, tw, from)
			}
			_, fsigned, _ := intInfo(from)
			if tw <= x.S.W {
				return Extract(x, tw-1, 0)
			}
			if fsigned {
				return SignExt(x, tw)
			}
			return ZeroExt(x, tw)
		}
	case *SliceV:
		if isString(to) {
			return e.stringOfBytes(x)
		}
		return x
	case *ModelObj:
		if x.Kind == "float" {
			return x
		}
	}
	return e.changeType(v, from, to)
}

// intToBV: r with (signed or unsigned) value of r equal to t; memoised per term
func (e *Exec) intToBV(t *Term, w int, from types.Type) *Term {
	_, signed, _ := intInfo(from)
	name := "int.bv"
	if signed {
		name = "int.sbv"
	}
	r := App(fmt.Sprintf("%s%d", name, w), BV(w), t)
	// link asserted once
	k := r.Key()
	if e.u64memo[k] == nil {
		e.u64memo[k] = r
		if signed {
			e.assertPC(Implies(And(IGe(t, IntConst(new(bigInt).Neg(pow2(w-1)))), ILt(t, IntConst(pow2(w-1)))), Eq(BV2Int(r), t)))
		} else {
			e.assertPC(Implies(And(IGe(t, IntI(0)), ILt(t, IntConst(pow2(w)))), Eq(BV2Nat(r), t)))
		}
	}
	return r
}

func (e *Exec) typeAssert(fr *Frame, x *ssa.TypeAssert) Value {
	v := e.get(fr, x.X)
	iv, ok := v.(IfaceV)
	if !ok {
		e.unsupported(fmt.Sprintf("type assert on %T", v))
	}
	okv := false
	var res Value
	if iv.V != nil {
		if it, isI := x.AssertedType.Underlying().(*types.Interface); isI {
			if iv.T != nil {
				okv = types.Implements(iv.T, it) || (func() bool {
					if p, ok := iv.T.(*types.Pointer); ok {
						_ = p
					}
					return false
				})()
			} else {
				okv = e.modelImplements(iv.V, x.AssertedType)
			}
			res = iv
		} else {
			if iv.T != nil {
				okv = types.Identical(iv.T, x.AssertedType)
			} else {
				okv = e.modelIsType(iv.V, x.AssertedType)
			}
			res = iv.V
		}
	}
	if !okv {
		if _, isI := x.AssertedType.Underlying().(*types.Interface); isI {
			res = IfaceV{}
		} else {
			res = e.zero(x.AssertedType)
		}
	}
	if x.CommaOk {
		return TupleV{res, BoolT(okv)}
	}
	if !okv {
		e.goPanicStr("interface conversion: failed type assertion to " + x.AssertedType.String())
	}
	return res
}

// ---------- indexing / slicing ----------

func (e *Exec) concreteIndex(t *Term, n int, what string) int {
	i := e.decideIndex(t, n)
	if i < 0 {
		e.goPanicStr("runtime error: index out of range (" + what + ")")
	}
	return i
}

func (e *Exec) indexAddr(fr *Frame, x *ssa.IndexAddr) Value {
	base := e.get(fr, x.X)
	idx := e.get(fr, x.Index).(*Term)
	if idx.S.K == SInt {
		if !idx.IsConst() {
			e.unsupported("index with integer-shadow value")
		}
		idx = BVConst(idx.N, 64)
	}
	switch b := base.(type) {
	case *SliceV:
		if b.Op != nil {
			e.unsupported("index into opaque bytes")
		}
		i := e.concreteIndex(idx, b.Len, "slice")
		return Ptr{O: b.A, Path: []int{b.Off + i}}
	case Ptr:
		arr, ok := e.peek(b).(*ArrayV)
		if !ok {
			e.unsupported("IndexAddr on pointer to non-array")
		}
		i := e.concreteIndex(idx, len(arr.E), "array")
		return b.sub(i)
	}
	e.unsupported(fmt.Sprintf("IndexAddr on %T", base))
	return nil
}

// peek: load without copying
func (e *Exec) peek(p Ptr) Value {
	if p.O == nil {
		e.goPanicStr("runtime error: invalid memory address or nil pointer dereference")
	}
	v := p.O.V
	for _, i := range p.Path {
		switch c := v.(type) {
		case *StructV:
			v = c.F[i]
		case *ArrayV:
			v = c.E[i]
		}
	}
	return v
}

func (e *Exec) index(fr *Frame, x *ssa.Index) Value {
	base := e.get(fr, x.X)
	idx := e.get(fr, x.Index).(*Term)
	switch b := base.(type) {
	case *ArrayV:
		i := e.concreteIndex(idx, len(b.E), "array")
		return b.E[i]
	case *Term:
		if b.IsStrLit() {
			i := e.concreteIndex(idx, len(b.Str), "string")
			return BVU(uint64(b.Str[i]), 8)
		}
		e.unsupported("index into symbolic string")
	}
	e.unsupported(fmt.Sprintf("Index on %T", base))
	return nil
}

func (e *Exec) optIdx(fr *Frame, v ssa.Value, def int) int {
	if v == nil {
		return def
	}
	t := e.get(fr, v).(*Term)
	if !t.IsConst() {
		e.unsupported("symbolic slice bound")
	}
	if t.S.K == SInt {
		return int(t.N.Int64())
	}
	return int(t.Signed().Int64())
}

func (e *Exec) sliceOp(fr *Frame, x *ssa.Slice) Value {
	base := e.get(fr, x.X)
	switch b := base.(type) {
	case *SliceV:
		if b.Op != nil {
			if x.Low == nil && x.High == nil {
				return b
			}
			e.unsupported("slicing opaque bytes")
		}
		lo := e.optIdx(fr, x.Low, 0)
		hi := e.optIdx(fr, x.High, b.Len)
		mx := e.optIdx(fr, x.Max, b.Cap)
		if lo < 0 || hi < lo || mx < hi || mx > b.Cap {
			e.goPanicStr("runtime error: slice bounds out of range")
		}
		if b.Nil && lo == 0 && hi == 0 {
			return b
		}
		return &SliceV{A: b.A, Off: b.Off + lo, Len: hi - lo, Cap: mx - lo}
	case Ptr:
		arr, ok := e.peek(b).(*ArrayV)
		if !ok {
			e.unsupported("slice of pointer to non-array")
		}
		n := len(arr.E)
		if x.High != nil && arr.Chunk != nil {
			if ht, ok := e.get(fr, x.High).(*Term); ok && !ht.IsConst() {
				if bt := e.chunkBytes(arr, e.optIdx(fr, x.Low, 0), ht); bt != nil {
					return &SliceV{Op: bt} // array[lo : off+n]: a read-only view of the copied bytes
				}
			}
		}
		lo := e.optIdx(fr, x.Low, 0)
		hi := e.optIdx(fr, x.High, n)
		mx := e.optIdx(fr, x.Max, n)
		if lo < 0 || hi < lo || mx < hi || mx > n {
			e.goPanicStr("runtime error: slice bounds out of range")
		}
		// the array must be a heap object of its own for aliasing to be exact
		obj := b.O
		if len(b.Path) != 0 {
			// array nested in a struct: alias through a view object is not supported; copy (read-mostly use)
			obj = e.newObj(arr, "arrview")
		}
		return &SliceV{A: obj, Off: lo, Len: hi - lo, Cap: mx - lo}
	case *Term:
		if b.S == StrSort {
			if b.IsStrLit() {
				lo := e.optIdx(fr, x.Low, 0)
				hi := e.optIdx(fr, x.High, len(b.Str))
				if lo < 0 || hi < lo || hi > len(b.Str) {
					e.goPanicStr("runtime error: slice bounds out of range")
				}
				return StrLit(b.Str[lo:hi])
			}
			lo := e.optIdx(fr, x.Low, 0)
			if x.High == nil {
				return App("str.from", StrSort, b, IntI(int64(lo)))
			}
			hi := e.optIdx(fr, x.High, 0)
			return App("str.substr", StrSort, b, IntI(int64(lo)), IntI(int64(hi)))
		}
	}
	e.unsupported(fmt.Sprintf("Slice on %T", base))
	return nil
}

// ---------- maps ----------

func (e *Exec) keyEq(a, b Value) *Term { return e.eqValue(a, b) }

func (e *Exec) mapFind(m *MapObj, k Value) int {
	alts := make([]*Term, len(m.K)+1)
	var none []*Term
	for i, mk := range m.K {
		alts[i] = e.keyEq(mk, k)
		none = append(none, Not(alts[i]))
	}
	alts[len(m.K)] = And(none...)
	i := e.decide(alts)
	if i == len(m.K) {
		return -1
	}
	return i
}

func (e *Exec) mapUpdate(mv, k, v Value) {
	m := mv.(*MapV)
	if m.M == nil {
		e.goPanicStr("assignment to entry in nil map")
	}
	i := e.mapFind(m.M, k)
	if i >= 0 {
		m.M.V[i] = deepCopy(v)
		return
	}
	m.M.K = append(m.M.K, k)
	m.M.V = append(m.M.V, deepCopy(v))
}

func (e *Exec) lookup(fr *Frame, x *ssa.Lookup) Value {
	base := e.get(fr, x.X)
	k := e.get(fr, x.Index)
	if s, ok := base.(*Term); ok && s.S == StrSort {
		if !s.IsStrLit() {
			e.unsupported("index into symbolic string")
		}
		i := e.concreteIndex(k.(*Term), len(s.Str), "string")
		return BVU(uint64(s.Str[i]), 8)
	}
	if em, ok := base.(*ModelObj); ok && em.Kind == "enummap" {
		kt, isT := k.(*Term)
		if !isT {
			e.unsupported("enum map lookup with a non-scalar key")
		}
		var val Value
		if kt.S == StrSort {
			val = App("enum.value."+em.Name, BV(32), kt)
		} else {
			val = App("str.enum."+em.Name, StrSort, kt)
		}
		if x.CommaOk {
			return TupleV{val, App("enum.known."+em.Name, BoolSort, kt)}
		}
		return val
	}
	m, ok := base.(*MapV)
	if !ok {
		e.unsupported(fmt.Sprintf("Lookup on %T", base))
	}
	vt := x.X.Type().Underlying().(*types.Map).Elem()
	var val Value
	found := false
	if m.M != nil {
		if i := e.mapFind(m.M, k); i >= 0 {
			val, found = deepCopy(m.M.V[i]), true
		}
	}
	if !found {
		val = e.zero(vt)
	}
	if x.CommaOk {
		return TupleV{val, BoolT(found)}
	}
	return val
}

// ---------- range ----------

type rangeIter struct {
	m    *MapObj
	ord  []int
	pos  int
	str  string
	isSt bool
}

func (e *Exec) makeRange(v Value, t types.Type) Value {
	switch x := v.(type) {
	case *MapV:
		it := &rangeIter{m: x.M}
		if x.M != nil {
			n := len(x.M.K)
			it.ord = e.mapOrder(n)
		}
		return it
	case *Term:
		if x.IsStrLit() {
			return &rangeIter{isSt: true, str: x.Str}
		}
	}
	e.unsupported(fmt.Sprintf("range over %T", v))
	return nil
}

// mapOrder: iteration order over a Go map. By default insertion order; with cfg.MapOrderSymbolic every
// permutation is a separate path (runtime map order is the nondeterminism C18 quantifies over).
func (e *Exec) mapOrder(n int) []int {
	ord := make([]int, n)
	for i := range ord {
		ord[i] = i
	}
	if !e.cfg.MapOrderSymbolic || n < 2 {
		return ord
	}
	perms := permutations(n)
	alts := make([]*Term, len(perms))
	tag := e.fresh("oracle.maporder", IntSort)
	for i := range perms {
		alts[i] = Eq(tag, IntI(int64(i)))
	}
	// make exhaustive
	alts[len(perms)-1] = Not(Or(alts[:len(perms)-1]...))
	return perms[e.decide(alts)]
}

func permutations(n int) [][]int {
	var out [][]int
	var rec func(cur []int, used []bool)
	rec = func(cur []int, used []bool) {
		if len(cur) == n {
			out = append(out, append([]int(nil), cur...))
			return
		}
		for i := 0; i < n; i++ {
			if !used[i] {
				used[i] = true
				rec(append(cur, i), used)
				used[i] = false
			}
		}
	}
	rec(nil, make([]bool, n))
	return out
}

func (e *Exec) rangeNext(it *rangeIter, x *ssa.Next) Value {
	if it.isSt {
		if it.pos >= len(it.str) {
			return TupleV{False, BVU(0, 64), BVU(0, 32)}
		}
		// byte-wise for ASCII; non-ASCII literals are not iterated in the followed code
		c := it.str[it.pos]
		if c >= 0x80 {
			e.unsupported("range over non-ASCII string")
		}
		r := TupleV{True, BVU(uint64(it.pos), 64), BVU(uint64(c), 32)}
		it.pos++
		return r
	}
	tt := x.Type().(*types.Tuple)
	if it.m == nil || it.pos >= len(it.ord) {
		return TupleV{False, e.zeroOrNil(tt.At(1).Type()), e.zeroOrNil(tt.At(2).Type())}
	}
	// entries deleted during iteration are skipped; entries are addressed by snapshot index
	i := it.ord[it.pos]
	it.pos++
	if i >= len(it.m.K) {
		return e.rangeNext(it, x)
	}
	return TupleV{True, it.m.K[i], deepCopy(it.m.V[i])}
}

func (e *Exec) zeroOrNil(t types.Type) Value {
	if b, ok := t.(*types.Basic); ok && b.Kind() == types.Invalid {
		return nil
	}
	return e.zero(t)
}

// ---------- builtins ----------

func (e *Exec) builtin(name string, args []Value, argTypes []types.Type) []Value {
	switch name {
	case "len", "cap":
		switch x := args[0].(type) {
		case *SliceV:
			if x.Op != nil {
				return []Value{bytesLen(x.Op)}
			}
			if name == "cap" {
				return []Value{BVU(uint64(x.Cap), 64)}
			}
			return []Value{BVU(uint64(x.Len), 64)}
		case *Term:
			return []Value{strLen(x)}
		case *MapV:
			if x.M == nil {
				return []Value{BVU(0, 64)}
			}
			return []Value{BVU(uint64(len(x.M.K)), 64)}
		case *ArrayV:
			return []Value{BVU(uint64(len(x.E)), 64)}
		case Ptr:
			if a, ok := e.peek(x).(*ArrayV); ok {
				return []Value{BVU(uint64(len(a.E)), 64)}
			}
		}
		e.unsupported(fmt.Sprintf("len of %T", args[0]))
	case "append":
		return []Value{e.appendOp(args[0], args[1], argTypes)}
	case "copy":
		return []Value{e.copyOp(args[0], args[1])}
	case "delete":
		m := args[0].(*MapV)
		if m.M != nil {
			if i := e.mapFind(m.M, args[1]); i >= 0 {
				m.M.K = append(append([]Value{}, m.M.K[:i]...), m.M.K[i+1:]...)
				m.M.V = append(append([]Value{}, m.M.V[:i]...), m.M.V[i+1:]...)
			}
		}
		return nil
	case "recover":
		// find the innermost frame running defers with a live panic
		for i := len(e.frames) - 1; i >= 0; i-- {
			f := e.frames[i]
			if f.running && f.panicV != nil {
				v := f.panicV.Val
				e.res.Recovered = append(e.res.Recovered, f.panicV.Str)
				f.panicV = nil
				if iv, ok := v.(IfaceV); ok {
					return []Value{iv}
				}
				return []Value{IfaceV{V: v}}
			}
		}
		return []Value{IfaceV{}}
	case "print", "println":
		return nil
	case "ssa:wrapnilchk":
		if p, ok := args[0].(Ptr); ok && p.O == nil {
			e.goPanicStr("value method called using nil pointer")
		}
		return []Value{args[0]}
	case "min", "max":
		r := args[0].(*Term)
		for _, a := range args[1:] {
			t := a.(*Term)
			var c *Term
			if name == "min" {
				c = e.binopTerm(token.LSS, t, r, argTypes[0]).(*Term)
			} else {
				c = e.binopTerm(token.GTR, t, r, argTypes[0]).(*Term)
			}
			r = Ite(c, t, r)
		}
		return []Value{r}
	}
	e.unsupported("builtin " + name)
	return nil
}

func (e *Exec) sliceElems(s *SliceV) []Value {
	if s.Nil || s.Len == 0 {
		return nil
	}
	return s.A.V.(*ArrayV).E[s.Off : s.Off+s.Len]
}

func (e *Exec) appendOp(a, b Value, argTypes []types.Type) Value {
	s := a.(*SliceV)
	var add []Value
	switch y := b.(type) {
	case *SliceV:
		if y.Op != nil || s.Op != nil {
			return &SliceV{Op: bytesCat(e.bytesTerm(s), e.bytesTerm(y))}
		}
		add = e.sliceElems(y)
	case *Term: // append([]byte, string...)
		if y.IsStrLit() && s.Op == nil {
			for i := 0; i < len(y.Str); i++ {
				add = append(add, BVU(uint64(y.Str[i]), 8))
			}
		} else {
			return &SliceV{Op: bytesCat(e.bytesTerm(s), bytesOfStrTerm(y))}
		}
	default:
		e.unsupported(fmt.Sprintf("append of %T", b))
	}
	if len(add) == 0 {
		return s
	}
	n := len(add)
	if !s.Nil && s.Len+n <= s.Cap {
		arr := s.A.V.(*ArrayV)
		for i, v := range add {
			arr.E[s.Off+s.Len+i] = deepCopy(v)
		}
		return &SliceV{A: s.A, Off: s.Off, Len: s.Len + n, Cap: s.Cap}
	}
	ncap := s.Len + n
	if s.Cap*2 > ncap {
		ncap = s.Cap * 2
	}
	arr := &ArrayV{E: make([]Value, ncap)}
	old := e.sliceElems(s)
	for i, v := range old {
		arr.E[i] = deepCopy(v)
	}
	for i, v := range add {
		arr.E[s.Len+i] = deepCopy(v)
	}
	var et types.Type
	if len(argTypes) > 0 {
		if st, ok := argTypes[0].Underlying().(*types.Slice); ok {
			et = st.Elem()
		}
	}
	for i := s.Len + n; i < ncap; i++ {
		if et != nil {
			arr.E[i] = e.zero(et)
		} else {
			arr.E[i] = BVU(0, 8)
		}
	}
	return &SliceV{A: e.newObj(arr, "append"), Off: 0, Len: s.Len + n, Cap: ncap}
}

func (e *Exec) copyOp(dst, src Value) Value {
	d := dst.(*SliceV)
	var elems []Value
	switch s := src.(type) {
	case *SliceV:
		if s.Op != nil || d.Op != nil {
			e.unsupported("copy with opaque bytes")
		}
		elems = e.sliceElems(s)
	case *Term:
		if !s.IsStrLit() {
			return e.copySymString(d, s)
		}
		for i := 0; i < len(s.Str); i++ {
			elems = append(elems, BVU(uint64(s.Str[i]), 8))
		}
	}
	n := min(d.Len, len(elems))
	if n > 0 {
		// copy handles overlap like memmove: snapshot first
		tmp := make([]Value, n)
		for i := 0; i < n; i++ {
			tmp[i] = deepCopy(elems[i])
		}
		arr := d.A.V.(*ArrayV)
		for i := 0; i < n; i++ {
			arr.E[d.Off+i] = tmp[i]
		}
	}
	return BVU(uint64(n), 64)
}

// copy(dst, s) for a symbolic string into an array-backed byte slice: the copied bytes are kept as one opaque
// chunk of the array (see ArrayV.Chunk); two cases — the string fits (n = len(s)), or it is truncated to the
// destination's length
func (e *Exec) copySymString(d *SliceV, s *Term) Value {
	if d.Op != nil || d.Nil || d.Len == 0 {
		e.unsupported("copy from symbolic string into opaque/empty bytes")
	}
	arr := d.A.V.(*ArrayV)
	if arr.Chunk != nil {
		e.unsupported("second copy from a symbolic string into the same array")
	}
	ln := App("str.len", IntSort, s)
	ch := &arrChunk{Off: d.Off, Region: d.Len}
	var n *Term
	if e.decideBool(ILe(ln, IntI(int64(d.Len)))) {
		ch.Bytes, ch.N, n = bytesOfStrTerm(s), ln, ln
	} else {
		n = IntI(int64(d.Len))
		ch.Bytes, ch.N = bytesOfStrTerm(App("str.substr", StrSort, s, IntI(0), n)), n
	}
	for i := 0; i < d.Len; i++ {
		arr.E[d.Off+i] = e.fresh("copy.byte", BV(8))
	}
	arr.Chunk = ch
	return n
}

// chunkBytes: the bytes of array elements [lo, hi) when that range ends exactly where the chunk's copied bytes end
func (e *Exec) chunkBytes(arr *ArrayV, lo int, hi *Term) *Term {
	ch := arr.Chunk
	if ch == nil || lo > ch.Off {
		return nil
	}
	want := IAdd(IntI(int64(ch.Off)), toIntAny(ch.N))
	// int arithmetic on Int shadows is wrapped to 64 bits by nested ite terms; the number of bytes copied is at
	// most the region length, so the unwrapped sum is the value
	for hi.Op == "ite" && len(hi.Args) == 3 {
		hi = hi.Args[2]
	}
	if toIntAny(hi).Key() != want.Key() && IAdd(toIntAny(ch.N), IntI(int64(ch.Off))).Key() != toIntAny(hi).Key() {
		return nil
	}
	out := ch.Bytes
	if ch.Off > lo {
		out = bytesCat(bytesOfBV(concatBytes(arr.E[lo:ch.Off])), out)
	}
	return out
}

func toIntAny(t *Term) *Term {
	if t.S.K == SInt {
		return t
	}
	if t.IsConst() {
		return IntConst(t.N)
	}
	return BV2Nat(t)
}

func constantBool(c *ssa.Const) bool     { return constant.BoolVal(c.Value) }
func constantString(c *ssa.Const) string { return constant.StringVal(c.Value) }

func sortedSet(m map[string]bool) []string {
	var out []string
	for k := range m {
		out = append(out, k)
	}
	sort.Strings(out)
	return out
}
